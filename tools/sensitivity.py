#!/usr/bin/env python3
"""Sensitivity suite: deliberately break a property in /repo's working tree (never committed),
run the registered quick checks, record which check notices, and restore the tree.

usage: tools/sensitivity.py [name-substring ...]      (no argument: all mutants)
       tools/sensitivity.py --seeded [--target-only]  (the kept sub-agent changes under /verif/seeded; --target-only runs
                                                       only the check of the property the change was written against)
Results: /verif/sensitivity/results.json and results.md
"""
import json
import os
import subprocess
import sys
import time

ROOT = os.path.dirname(os.path.dirname(os.path.abspath(__file__)))  # the /verif tree this tool lives in (may be a snapshot)
REPO = "/repo"  # replaced by a scratch worktree with --in-worktree
ENV_EXTRA = {}
PROPS = ["C03", "C05", "C08", "C09"]

SB = "src/errorcode/decoding/syndrome_based.rs"
DM = "src/errorcode/decoding/mod.rs"
PL = "src/placement.rs"
DD = "src/decodation/mod.rs"
ECI = "src/decodation/eci.rs"

# (name, expected-to-be-noticed-by, [(file, old, new), ...])
MUTANTS = [
    ("revert_index_mapping_fix", ["C03", "C05", "C09"], [(SB,
        """        let pos = n - i - 1;
        if pos < n_data {
            let idx = pos * stride;""",
        """        let pos = n - i - 1;
        if pos * stride < data.len() {
            let idx = pos * stride;"""), (SB,
        """            let idx = (pos - n_data) * stride;""",
        """            let idx = pos * stride - data.len();""")]),
    ("ld_stops_one_step_early", ["C03"], [(SB, "    while v < t {", "    while v + 1 < t {")]),
    ("chien_misses_last_power", ["C03"], [(DM, "    for i in 0..=254 {", "    for i in 0..254 {")]),
    ("singular_case_gamma_index", ["C03"], [(SB, "                    gamma[i] -= sigma[i - j] * gj;", "                    gamma[i] -= sigma[j] * gj;")]),
    ("singular_case_skipped", ["C03"], [(SB,
        "            let m = (1..t - v).find_map(|i| {", "            let m = (1..1).find_map(|i: usize| {")]),
    ("codewords_bit_order", ["C03"], [(PL,
        "                *codeword = (*codeword << 1) | (bit as u8);", "                *codeword = (*codeword >> 1) | ((bit as u8) << 7);")]),
    ("bp_error_values_last_division", ["C03"], [(SB,
        "    for i in 0..e {\n        syn[i] /= x_loc[i];", "    for i in 0..e.min(7) {\n        syn[i] /= x_loc[i];")]),
    ("decode_skips_last_block", ["C03", "C09"], [(SB,
        "    for block in 0..setup.num_ecc_blocks {\n        decode_gen(", "    for block in 0..setup.num_ecc_blocks.min(9) {\n        decode_gen(")]),
    ("revert_odd_k_fix", ["C09"], [(SB, "    for j in t..=err_len - v - 1 {", "    for j in t..=2 * t - v - 1 {")]),
    ("malfunction_test_deleted", ["C09"], [(SB, "        if t_j != GF(0) {", "        if false && t_j != GF(0) {")]),
    ("root_count_check_deleted", ["C09", "C05"], [(SB,
        "    if inv_error_locations.len() != lambda_coeff.len() - 1 || inv_error_locations[0] == GF(0) {",
        "    if inv_error_locations.is_empty() || inv_error_locations[0] == GF(0) {")]),
    ("errors_outside_range_deleted", ["C05", "C09"], [(SB, "        if i >= n {", "        if false && i >= n {")]),
    ("revert_leading_zero_fix", ["C05"], [(SB, "    if v > t {\n", "    if false && v > t {\n")]),
    ("revert_chien_zero_coefficient_fix", ["C05"], [(DM,
        "        if c[1].into() != GF(0) && c[0].into() != GF(0) {", "        if c[1].into() != GF(0) {")]),
    ("revert_c40_pair_fix", ["C05"], [(DD,
        "        .checked_sub(1)\n        .ok_or(DataDecodingError::UnexpectedCharacter(\n            \"illegal C40/Text/X12 codeword pair\",\n            b,\n        ))?;",
        "        - 1;")]),
    ("revert_eci_third_byte_fix", ["C05"], [(DD,
        "            let mut ch3 = data.eat()?;\n            if !matches!(ch3, 1..=254) {", "            let mut ch3 = data.eat()?;\n            if !matches!(ch2, 1..=254) {")]),
    ("revert_iso8859_9_fix", ["C05"], [(ECI, "ISO_8859_9[(ch - 0xA0) as usize]", "ISO_8859_9[(ch - 128) as usize]")]),
    ("revert_iso8859_11_fix", ["C05"], [(ECI, "0xDF..=0xFB => out.push(ISO_8859_11[(ch - 0xA0 - 4) as usize]),", "0xDF..=0xFB => out.push(ISO_8859_11[(ch - 0xA0) as usize]),")]),
    ("zero_width_guard_deleted", ["C05", "C08"], [(PL, "        if width == 0 {\n            return Err(BitmapConversionError::ZeroWidth);\n        }\n", "")]),
    ("edifact_no_progress_hang", ["C05"], [(DD,
        "        if data.len() <= 2 {\n            // rest is encoded as ASCII\n            break;\n        }",
        "        if data.len() <= 2 {\n            // rest is encoded as ASCII\n            return Ok((data, EncodationType::Edifact));\n        }")]),
    ("base256_length_unchecked_prealloc", ["C05"], [(DD,
        "    for _ in 0..length {\n        if let Ok(ch) = data.eat() {", "    let _ = data.0[..length.min(data.len() + 1)].len();\n    for _ in 0..length {\n        if let Ok(ch) = data.eat() {")]),
    ("parser_top_row_unchecked", ["C08"], [(PL,
        "                && first_row\n                    .iter()\n                    .zip([M::HIGH, M::LOW].into_iter().cycle())\n                    .all(|(a, b)| *a == b);", ";")]),
    ("parser_bottom_row_unchecked", ["C08"], [(PL, "            let alignment_ok = last_row.iter().all(|b| *b == M::HIGH)\n", "            let alignment_ok = true\n")]),
    ("parser_left_column_unchecked", ["C08"], [(PL,
        "                let alignment_ok = row[0] == M::HIGH && row[blk_w + 1] == alignment_bit;", "                let alignment_ok = row[blk_w + 1] == alignment_bit;")]),
    ("parser_right_column_unchecked", ["C08"], [(PL,
        "                let alignment_ok = row[0] == M::HIGH && row[blk_w + 1] == alignment_bit;", "                let alignment_ok = row[0] == M::HIGH;")]),
    ("parser_fixed_corner_unchecked", ["C08"], [(PL, "            if !padding_ok {", "            if false && !padding_ok {")]),
    ("parser_top_row_last_module_unchecked", ["C08"], [(PL,
        "                && first_row\n                    .iter()", "                && first_row[..width - 1]\n                    .iter()")]),
    ("render_vertical_bar_one_column_off", ["C08"], [(PL,
        "            for i in (1..h).step_by(2) {\n                bits[idx(i, cols_before)] = M::HIGH;", "            for i in (1..h).step_by(2) {\n                bits[idx(i, cols_before - 1)] = M::HIGH;")]),
    ("fixed_corner_swapped_in_render_and_parser", ["C08"], [(PL,
        "            *self.bit_mut(self.height - 2, self.width - 2) = M::HIGH;\n            *self.bit_mut(self.height - 1, self.width - 1) = M::HIGH;",
        "            *self.bit_mut(self.height - 2, self.width - 1) = M::HIGH;\n            *self.bit_mut(self.height - 1, self.width - 2) = M::HIGH;"), (PL,
        "            let padding_ok = entries[entries.len() - 2..] == [M::LOW, M::HIGH]\n                && entries[entries.len() - w - 2..entries.len() - w] == [M::HIGH, M::LOW];",
        "            let padding_ok = entries[entries.len() - 2..] == [M::HIGH, M::LOW]\n                && entries[entries.len() - w - 2..entries.len() - w] == [M::LOW, M::HIGH];")]),
    ("datasize_symbolsize_swapped", ["C08"], [(PL,
        "            return Err(BitmapConversionError::DataSize);", "            return Err(BitmapConversionError::SymbolSize);")]),
    ("size_lookup_ignores_height", ["C08", "C05"], [(PL,
        "                bs.width == width && bs.height == height", "                bs.width == width && bs.height * bs.width >= width * height")]),
]


# Negative controls: changes that keep every claimed property true (a different but correct algorithm,
# different error variants where the property does not fix them). No check may alarm on these.
CONTROLS = [
    ("control_berlekamp_massey_instead_of_levinson_durbin", [], [(SB,
        "            find_inv_error_locations_levinson_durbin,\n            find_error_values_bp,",
        "            find_inv_error_locations_bm,\n            find_error_values_bp,")]),
    ("control_root_count_failure_reported_as_too_many_errors", [], [(SB,
        "        verif_probe!(crate::verif_probes::ROOT_COUNT_REJECTED);\n        return Err(ErrorDecodingError::Malfunction);",
        "        verif_probe!(crate::verif_probes::ROOT_COUNT_REJECTED);\n        return Err(ErrorDecodingError::TooManyErrors);")]),
    ("control_damaged_clock_row_reported_as_padding_error", [], [(PL,
        "            if !alignment_ok {\n                return Err(BitmapConversionError::Alignment);\n            }\n\n            let rows",
        "            if !alignment_ok {\n                return Err(BitmapConversionError::Padding);\n            }\n\n            let rows")]),
    ("control_unexpected_end_reported_as_unexpected_character", [], [(DD,
        "        } else {\n            Err(DataDecodingError::UnexpectedEnd)\n        }\n    }\n\n    fn is_empty",
        "        } else {\n            Err(DataDecodingError::UnexpectedCharacter(\"end of data\", 0))\n        }\n    }\n\n    fn is_empty")]),
    ("control_decoder_rechecks_syndromes_after_correction", [], [(SB,
        "            error[idx] = (GF(error[idx]) - *err).into();\n        }\n    }\n\n    Ok(())\n}",
        "            error[idx] = (GF(error[idx]) - *err).into();\n        }\n    }\n\n    // belt and braces: the corrected block must have vanishing syndromes\n    let mut check = vec![GF(0); err_len];\n    let corrected = data\n        .iter()\n        .copied()\n        .step_by(stride)\n        .chain(error.iter().copied().step_by(stride));\n    if super::primitive_element_evaluation(corrected, &mut check) {\n        return Err(ErrorDecodingError::Malfunction);\n    }\n    Ok(())\n}")]),
    ("control_parser_checks_columns_before_rows", [], [(PL,
        "            if !alignment_ok {\n                return Err(BitmapConversionError::Alignment);\n            }\n\n            let rows",
        "            let rows_ok = alignment_ok;\n\n            let rows"), (PL,
        "                entries.extend_from_slice(&row[1..blk_w + 1]);\n                debug_assert_eq!(row[1..=blk_w].len(), blk_w);\n            }",
        "                entries.extend_from_slice(&row[1..blk_w + 1]);\n                debug_assert_eq!(row[1..=blk_w].len(), blk_w);\n            }\n            if !rows_ok {\n                return Err(BitmapConversionError::Alignment);\n            }")]),
    ("control_renderer_draws_bars_after_data", [], [(PL,
        "        // copy the data\n        for (b_i, b) in self.entries.iter().enumerate() {\n            let mut i = b_i / self.width;\n            i += 1 + (i / blk_h) * 2;\n            let mut j = b_i % self.width;\n            j += 1 + (j / blk_w) * 2;\n            bits[idx(i, j)] = *b;\n        }\n",
        "        // copy the data\n        for (b_i, b) in self.entries.iter().enumerate() {\n            let mut i = b_i / self.width;\n            i += 1 + (i / blk_h) * 2;\n            let mut j = b_i % self.width;\n            j += 1 + (j / blk_w) * 2;\n            bits[idx(i, j)] = *b;\n        }\n        for j in 0..w {\n            // (re)draw the bottom alignment last\n            bits[idx(h - 1, j)] = M::HIGH;\n        }\n")]),
    ("control_decoder_rejects_all_uncorrectable_words_early", [], [(SB,
        "    let t = err_len / 2;\n    let v = lambda_coeff.len() - 1;",
        "    let t = err_len / 2;\n    let v = lambda_coeff.len() - 1;\n    if v > t {\n        return Err(ErrorDecodingError::TooManyErrors);\n    }")]),
]


def sh(cmd, **kw):
    return subprocess.run(cmd, shell=True, capture_output=True, text=True, **kw)


def restore():
    sh(f"git -C {REPO} checkout -- . && git -C {REPO} clean -fdq -- tests src")


def dirty():
    return sh(f"git -C {REPO} status --porcelain --untracked-files=no").stdout.strip() != ""


def run_checks(props):
    out = {}
    for p in props:
        t0 = time.time()
        env = dict(os.environ)
        env.setdefault("DMSIM_HANG_MS", "5000")
        env.update(ENV_EXTRA)
        r = subprocess.run([os.path.join(ROOT, "check"), p, "quick"], capture_output=True, text=True, env=env)
        viol = [l for l in r.stdout.splitlines() if l.startswith("VIOLATION")]
        classes = [l.strip() for l in r.stdout.splitlines() if l.strip().startswith("class=")]
        out[p] = {"exit": r.returncode, "violation_lines": len(viol), "classes": [c[:160] for c in classes[:6]],
                  "wall_s": round(time.time() - t0, 1)}
        if r.returncode not in (0, 1):
            out[p]["stderr_tail"] = r.stderr[-600:]
    return out


def apply_mutant(edits):
    for (f, old, new) in edits:
        path = os.path.join(REPO, f)
        s = open(path).read()
        if s.count(old) != 1:
            return f"pattern occurs {s.count(old)} times in {f}: {old[:60]!r}"
        open(path, "w").write(s.replace(old, new))
    return None


def main():
    global REPO
    args = sys.argv[1:]
    wt = None
    if "--in-worktree" in args:
        # leave /repo alone: mutate a scratch worktree of its HEAD and point the checks at it
        args.remove("--in-worktree")
        wt = "/tmp/dmsim-sens-wt-%d" % os.getpid()
        r = sh(f"git -C /repo worktree add --detach {wt} HEAD")
        if r.returncode != 0:
            print("cannot create worktree:", r.stderr)
            sys.exit(2)
        REPO = wt
        ENV_EXTRA["DMSIM_REPO"] = wt
    target_only = "--target-only" in args
    if target_only:
        args.remove("--target-only")
    os.makedirs(os.path.join(ROOT, "sensitivity"), exist_ok=True)
    if dirty():
        print("refusing: /repo working tree is not clean")
        sys.exit(2)
    results = []
    try:
        if args and args[0] == "--seeded":
            base = os.path.join(ROOT, "seeded")
            for d in sorted(os.listdir(base)):
                if d.startswith("_"):
                    continue
                patch = os.path.join(base, d, "patch.diff")
                if not os.path.exists(patch) or (len(args) > 1 and not any(a in d for a in args[1:])):
                    continue
                meta = json.load(open(os.path.join(base, d, "meta.json")))
                r = sh(f"git -C {REPO} apply {patch}")
                if r.returncode != 0:
                    results.append({"mutant": d, "error": "patch does not apply: " + r.stderr[-300:]})
                    restore()
                    continue
                exp = [meta.get("property")]
                res = run_checks(exp if target_only else PROPS)
                restore()
                for p in PROPS:
                    res.setdefault(p, {"exit": None, "violation_lines": 0, "classes": [], "wall_s": 0})
                results.append({"mutant": d, "kind": "seeded", "expected": exp, "checks": res,
                                "noticed_by": [p for p in PROPS if res[p]["exit"] == 1],
                                "caught": any(res[p]["exit"] == 1 for p in exp)})
                print(d, {p: res[p]["exit"] for p in PROPS}, flush=True)
            outname = "results_seeded"
        else:
            todo = MUTANTS
            if args and args[0] == "--controls":
                todo = CONTROLS
                args = args[1:]
            for (name, expected, edits) in todo:
                if args and not any(a in name for a in args):
                    continue
                err = apply_mutant(edits)
                if err:
                    results.append({"mutant": name, "error": err})
                    restore()
                    print(name, "ERROR", err, flush=True)
                    continue
                b = sh(f"cd {REPO} && cargo build --offline 2>&1 | tail -5")
                if "error" in b.stdout:
                    results.append({"mutant": name, "error": "does not compile: " + b.stdout[-400:]})
                    restore()
                    print(name, "does not compile", flush=True)
                    continue
                res = run_checks(PROPS)
                restore()
                results.append({"mutant": name, "kind": "own" if expected else "negative control", "expected": expected, "checks": res,
                                "noticed_by": [p for p in PROPS if res[p]["exit"] == 1],
                                "caught": any(res[p]["exit"] == 1 for p in expected) if expected else all(res[p]["exit"] == 0 for p in PROPS)})
                print(name, {p: res[p]["exit"] for p in PROPS}, flush=True)
            outname = "results_controls" if todo is CONTROLS else ("results" if not args else "results_partial")
    finally:
        restore()
        if wt:
            sh(f"git -C /repo worktree remove --force {wt}; git -C /repo worktree prune")
    json.dump(results, open(os.path.join(ROOT, "sensitivity", f"{outname}.json"), "w"), indent=1)
    with open(os.path.join(ROOT, "sensitivity", f"{outname}.md"), "w") as f:
        f.write("| change | expected | C03 | C05 | C08 | C09 | first class reported |\n|---|---|---|---|---|---|---|\n")
        for r in results:
            if "error" in r:
                f.write(f"| {r['mutant']} | - | - | - | - | - | {r['error'][:80]} |\n")
                continue
            cls = ""
            for p in PROPS:
                if r["checks"][p]["classes"]:
                    cls = r["checks"][p]["classes"][0]
                    break
            cells = " | ".join("**alarm**" if r["checks"][p]["exit"] == 1 else ("ok" if r["checks"][p]["exit"] == 0 else ("not run" if r["checks"][p]["exit"] is None else f"exit {r['checks'][p]['exit']}")) for p in PROPS)
            f.write(f"| {r['mutant']} | {','.join(r['expected'])} | {cells} | {cls[:90]} |\n")
    missed = [r["mutant"] for r in results if "error" not in r and not r["caught"]]
    print("missed:", missed)


if __name__ == "__main__":
    main()

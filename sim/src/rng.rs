//! The simulator's only source of randomness: SplitMix64 seeding xoshiro256**.
//! Implemented here (no `rand` crate) so the stream can never change under us.

#[inline]
pub fn splitmix64(state: &mut u64) -> u64 {
    *state = state.wrapping_add(0x9E37_79B9_7F4A_7C15);
    let mut z = *state;
    z = (z ^ (z >> 30)).wrapping_mul(0xBF58_476D_1CE4_E5B9);
    z = (z ^ (z >> 27)).wrapping_mul(0x94D0_49BB_1331_11EB);
    z ^ (z >> 31)
}

/// Stateless 64-bit mixer (one splitmix step of `x`).
#[inline]
pub fn mix64(x: u64) -> u64 {
    let mut s = x;
    splitmix64(&mut s)
}

/// run_seed = mix(VERIF_SEED, property tag, run index)
pub fn run_seed(verif_seed: u64, prop_tag: u64, i: u64) -> u64 {
    let a = mix64(verif_seed ^ 0xD1B5_4A32_D192_ED03);
    let b = mix64(a ^ prop_tag.wrapping_mul(0xA24B_AED4_963E_E407));
    mix64(b ^ i.wrapping_mul(0x9FB2_1C65_1E98_DF25).wrapping_add(i))
}

#[derive(Clone, Debug)]
pub struct Rng {
    s: [u64; 4],
}

impl Rng {
    pub fn new(seed: u64) -> Self {
        let mut sm = seed;
        let mut s = [0u64; 4];
        for x in s.iter_mut() {
            *x = splitmix64(&mut sm);
        }
        if s == [0, 0, 0, 0] {
            s[0] = 1;
        }
        Rng { s }
    }

    #[inline]
    pub fn next_u64(&mut self) -> u64 {
        let result = self.s[1].wrapping_mul(5).rotate_left(7).wrapping_mul(9);
        let t = self.s[1] << 17;
        self.s[2] ^= self.s[0];
        self.s[3] ^= self.s[1];
        self.s[1] ^= self.s[2];
        self.s[0] ^= self.s[3];
        self.s[2] ^= t;
        self.s[3] = self.s[3].rotate_left(45);
        result
    }

    /// Uniform in 0..n (n > 0). Multiply-shift; bias < 2^-32 for n < 2^32, irrelevant here
    /// and, more importantly, deterministic.
    #[inline]
    pub fn below(&mut self, n: usize) -> usize {
        debug_assert!(n > 0);
        (((self.next_u64() >> 32) * (n as u64)) >> 32) as usize
    }

    /// Uniform in lo..=hi
    #[inline]
    pub fn range(&mut self, lo: usize, hi: usize) -> usize {
        debug_assert!(lo <= hi);
        lo + self.below(hi - lo + 1)
    }

    #[inline]
    pub fn chance(&mut self, num: usize, den: usize) -> bool {
        self.below(den) < num
    }

    #[inline]
    pub fn byte(&mut self) -> u8 {
        (self.next_u64() >> 56) as u8
    }

    #[inline]
    pub fn nonzero_byte(&mut self) -> u8 {
        1 + self.below(255) as u8
    }

    #[inline]
    pub fn bit(&mut self) -> bool {
        (self.next_u64() >> 63) == 1
    }

    pub fn pick<'a, T>(&mut self, xs: &'a [T]) -> &'a T {
        &xs[self.below(xs.len())]
    }

    /// Index drawn according to integer weights.
    pub fn weighted(&mut self, weights: &[usize]) -> usize {
        let total: usize = weights.iter().sum();
        debug_assert!(total > 0);
        let mut r = self.below(total);
        for (i, w) in weights.iter().enumerate() {
            if r < *w {
                return i;
            }
            r -= *w;
        }
        weights.len() - 1
    }

    /// k distinct values from 0..n (k <= n), in random order.
    pub fn sample_distinct(&mut self, n: usize, k: usize) -> Vec<usize> {
        debug_assert!(k <= n);
        if k * 4 >= n {
            // partial Fisher-Yates
            let mut v: Vec<usize> = (0..n).collect();
            for i in 0..k {
                let j = i + self.below(n - i);
                v.swap(i, j);
            }
            v.truncate(k);
            v
        } else {
            let mut out: Vec<usize> = Vec::with_capacity(k);
            while out.len() < k {
                let c = self.below(n);
                if !out.contains(&c) {
                    out.push(c);
                }
            }
            out
        }
    }

    pub fn bytes(&mut self, n: usize) -> Vec<u8> {
        (0..n).map(|_| self.byte()).collect()
    }
}

/// FNV-1a over bytes, used for digests (never for choices).
pub fn fnv64(data: &[u8]) -> u64 {
    let mut h: u64 = 0xcbf2_9ce4_8422_2325;
    for b in data {
        h ^= *b as u64;
        h = h.wrapping_mul(0x0000_0100_0000_01B3);
    }
    h
}

//! Systematic single-fault enumerations (the "fault enumeration" parts of C03 and C08).

use crate::catalogue::{N_SIZES, SIZES};
use crate::exec::Ctx;
use crate::rng::{mix64, Rng};
use crate::runner::{Phase, Source};
use crate::trace::{Fault, Op, Producer, Trace};

fn seeded_data(seed: u64, size: usize, variant: u64) -> Vec<u8> {
    let mut rng = Rng::new(mix64(seed ^ mix64(size as u64 * 1315423911 + variant)));
    match variant % 4 {
        1 => vec![0u8; SIZES[size].n_data],
        2 => vec![0xFF; SIZES[size].n_data],
        _ => rng.bytes(SIZES[size].n_data),
    }
}

/// locate `i` in consecutive ranges of the given lengths
fn locate(prefix: &[u64], i: u64) -> (usize, u64) {
    // prefix[s] = first index of size s; prefix[N] = total
    let mut lo = 0usize;
    let mut hi = prefix.len() - 1;
    while lo + 1 < hi {
        let mid = (lo + hi) / 2;
        if prefix[mid] <= i {
            lo = mid;
        } else {
            hi = mid;
        }
    }
    (lo, i - prefix[lo])
}

fn prefix_of(f: impl Fn(usize) -> u64) -> Vec<u64> {
    let mut p = vec![0u64; N_SIZES + 1];
    for s in 0..N_SIZES {
        p[s + 1] = p[s] + f(s);
    }
    p
}

/// Every codeword position of every size x `nvals` error values
/// (nvals = 255: all non-zero values; fewer: 0x01, 0x80, 0xFF and seeded others).
pub fn c03_single_codeword(seed: u64, nvals: u64) -> Phase {
    let prefix = prefix_of(|s| SIZES[s].n_total() as u64 * nvals);
    let total = prefix[N_SIZES];
    let make = move |_ctx: &Ctx, i: u64| -> Trace {
        let (s, r) = locate(&prefix, i);
        let pos = (r / nvals) as u32;
        let vi = r % nvals;
        let mask: u8 = if nvals == 255 {
            (vi + 1) as u8
        } else {
            match vi {
                0 => 0x01,
                1 => 0x80,
                2 => 0xFF,
                _ => {
                    let m = (mix64(seed ^ (i.wrapping_mul(0x9E3779B97F4A7C15))) % 255) as u8;
                    m + 1
                }
            }
        };
        Trace {
            prop: "C03".into(),
            producer: Producer::Raw { size: s, data: seeded_data(seed, s, (pos as u64) % 3) },
            faults: vec![Fault::new("cw_single", Op::CwXor { pos, mask })],
        }
    };
    Phase {
        source: Source::Sweep { name: format!("sweep_single_codeword_x{}", nvals), prop: "C03".into(), make: Box::new(make) },
        runs: total,
        wall_cap_s: 0,
    }
}

/// 10x10: every error pattern of weight 2 (28 position pairs x 255^2 values) for one data vector.
pub fn c03_sq10_weight2(seed: u64) -> Phase {
    let n = SIZES[0].n_total() as u64; // 8
    let pairs: Vec<(u32, u32)> = (0..n as u32).flat_map(|a| (a + 1..n as u32).map(move |b| (a, b))).collect();
    let total = pairs.len() as u64 * 255 * 255;
    let make = move |_ctx: &Ctx, i: u64| -> Trace {
        let pi = (i / (255 * 255)) as usize;
        let r = i % (255 * 255);
        let (a, b) = pairs[pi];
        Trace {
            prop: "C03".into(),
            producer: Producer::Raw { size: 0, data: seeded_data(seed, 0, 0) },
            faults: vec![
                Fault::new("cw_pair", Op::CwXor { pos: a, mask: (r / 255 + 1) as u8 }),
                Fault::new("cw_pair", Op::CwXor { pos: b, mask: (r % 255 + 1) as u8 }),
            ],
        }
    };
    Phase {
        source: Source::Sweep { name: "sweep_sq10_all_weight2".into(), prop: "C03".into(), make: Box::new(make) },
        runs: total,
        wall_cap_s: 0,
    }
}

/// Full capacity, systematically, on the two smallest sizes with k = 7 (12x12 and 8x18, n = 12, t = 3): every position
/// triple (220) x every value triple over a 32-value subset that contains the single bits, 0xFF and the low powers of
/// alpha (32^3), and every position pair x all 255^2 value pairs; codeword stage only. All singular cases of the
/// locator search that three errors can produce on these sizes are met by construction, not by chance.
pub fn c03_k7_full_capacity(seed: u64) -> Phase {
    const VALS: [u8; 32] = [
        1, 2, 4, 8, 16, 32, 64, 128, 0xFF, 0x2D, 0x5A, 0xB4, 0x45, 0x8A, 0x39, 0x72, 3, 5, 6, 7, 9, 0x0F, 0x11, 0x33, 0x55, 0x81, 0xAA, 0xC3, 0xE4, 0xF0, 0xFE, 0x7F,
    ];
    let sizes: [usize; 2] = [1, 24];
    let n = 12u32;
    let mut triples: Vec<(u32, u32, u32)> = Vec::new();
    let mut pairs: Vec<(u32, u32)> = Vec::new();
    for a in 0..n {
        for b in a + 1..n {
            pairs.push((a, b));
            for c in b + 1..n {
                triples.push((a, b, c));
            }
        }
    }
    const V3: u64 = 32 * 32 * 32;
    const V2: u64 = 255 * 255;
    let per_size = triples.len() as u64 * V3 + pairs.len() as u64 * V2;
    let n3 = triples.len() as u64 * V3;
    let make = move |_ctx: &Ctx, i: u64| -> Trace {
        let si = sizes[(i / per_size) as usize];
        debug_assert!(SIZES[si].n_total() == 12 && SIZES[si].k == 7);
        let j = i % per_size;
        let faults = if j < n3 {
            let (a, b, c) = triples[(j / V3) as usize];
            let r = j % V3;
            vec![
                Fault::new("cw_pair", Op::CwXor { pos: a, mask: VALS[(r / 1024) as usize] }),
                Fault::new("cw_pair", Op::CwXor { pos: b, mask: VALS[((r / 32) % 32) as usize] }),
                Fault::new("cw_pair", Op::CwXor { pos: c, mask: VALS[(r % 32) as usize] }),
            ]
        } else {
            let j = j - n3;
            let (a, b) = pairs[(j / V2) as usize];
            let r = j % V2;
            vec![
                Fault::new("cw_pair", Op::CwXor { pos: a, mask: (r / 255 + 1) as u8 }),
                Fault::new("cw_pair", Op::CwXor { pos: b, mask: (r % 255 + 1) as u8 }),
            ]
        };
        Trace { prop: "C03".into(), producer: Producer::Raw { size: si, data: seeded_data(seed, si, 0) }, faults }
    };
    Phase {
        source: Source::Sweep { name: "sweep_k7_weight3_and_weight2_codeword_stage_only".into(), prop: "C03".into(), make: Box::new(make) },
        runs: per_size * 2,
        wall_cap_s: 0,
    }
}

/// Every single data-module flip of every size (pixel level, within the radius by construction).
pub fn c03_single_data_pixel(seed: u64) -> Phase {
    let prefix = prefix_of(|s| (SIZES[s].n_total() * 8) as u64);
    let total = prefix[N_SIZES];
    let make = move |ctx: &Ctx, i: u64| -> Trace {
        let (s, r) = locate(&prefix, i);
        let mut faults = Vec::new();
        if let Some(map) = ctx.maps[s].as_ref() {
            if let Some(px) = map.template_data_pixels.get(r as usize) {
                faults.push(Fault::new("px_single", Op::PxFlip { idx: *px }));
            }
        }
        Trace { prop: "C03".into(), producer: Producer::Raw { size: s, data: seeded_data(seed, s, 0) }, faults }
    };
    Phase {
        source: Source::Sweep { name: "sweep_single_data_module".into(), prop: "C03".into(), make: Box::new(make) },
        runs: total,
        wall_cap_s: 0,
    }
}

/// Every single-pixel flip (data AND fixed modules) of a rendered symbol, all sizes, `contents` contents each.
pub fn c08_single_pixel(seed: u64, contents: u64) -> Phase {
    let prefix = prefix_of(|s| SIZES[s].n_pixels() as u64 * contents);
    let total = prefix[N_SIZES];
    let make = move |_ctx: &Ctx, i: u64| -> Trace {
        let (s, r) = locate(&prefix, i);
        let npx = SIZES[s].n_pixels() as u64;
        let content = r / npx;
        let px = (r % npx) as u32;
        Trace {
            prop: "C08".into(),
            producer: Producer::Raw { size: s, data: seeded_data(seed, s, content) },
            faults: vec![Fault::new("px_single", Op::PxFlip { idx: px })],
        }
    };
    Phase {
        source: Source::Sweep { name: format!("sweep_single_pixel_x{}_contents", contents), prop: "C08".into(), make: Box::new(make) },
        runs: total,
        wall_cap_s: 0,
    }
}

/// Every data codeword stream of length <= 2, and every stream of length 3 (4 in the thorough tier)
/// whose first codeword is drawn from `heads`, straight into decode_data / decode_str.
pub fn c05_short_streams(full3: bool, len4_heads: bool) -> Phase {
    const HEADS: [u8; 12] = [230, 231, 232, 235, 236, 237, 238, 239, 240, 241, 129, 66];
    let n0: u64 = 1 + 256 + 65536;
    let n3: u64 = if full3 { 256 * 65536 } else { HEADS.len() as u64 * 65536 };
    let n4: u64 = if len4_heads { 7 * 256 * 65536 } else { 0 };
    let total = n0 + n3 + n4;
    let make = move |_ctx: &Ctx, i: u64| -> Trace {
        let data: Vec<u8> = if i == 0 {
            vec![]
        } else if i < 257 {
            vec![(i - 1) as u8]
        } else if i < n0 {
            let r = i - 257;
            vec![(r >> 8) as u8, r as u8]
        } else if i < n0 + n3 {
            let r = i - n0;
            let head = if full3 { (r >> 16) as u8 } else { HEADS[(r >> 16) as usize] };
            vec![head, (r >> 8) as u8, r as u8]
        } else {
            let r = i - n0 - n3;
            // latch, then three free codewords
            let head = [230u8, 231, 238, 239, 240, 241, 235][(r >> 24) as usize];
            vec![head, (r >> 16) as u8, (r >> 8) as u8, r as u8]
        };
        Trace { prop: "C05".into(), producer: Producer::Stream { data }, faults: vec![] }
    };
    Phase {
        source: Source::Sweep {
            name: format!("sweep_all_short_streams{}{}", if full3 { "_len3_full" } else { "_len3_heads" }, if len4_heads { "_len4_latched" } else { "" }),
            prop: "C05".into(),
            make: Box::new(make),
        },
        runs: total,
        wall_cap_s: 0,
    }
}

/// Every (length, width) pair of small pixel arrays x three fill patterns: the geometry clauses of C08
/// (width 0, ragged length, non-catalogue dimensions) and the parser's totality (C05) by enumeration.
pub fn small_geometry(prop: &'static str, max_len: u64, max_width: u64) -> Phase {
    let total = (max_len + 1) * (max_width + 1) * 3;
    let make = move |_ctx: &Ctx, i: u64| -> Trace {
        let fill = i % 3;
        let r = i / 3;
        let width = r % (max_width + 1);
        let len = r / (max_width + 1);
        let bits: Vec<bool> = (0..len)
            .map(|j| match fill {
                0 => false,
                1 => true,
                _ => j % 2 == 0,
            })
            .collect();
        Trace {
            prop: prop.into(),
            producer: Producer::Stream { data: vec![] },
            faults: vec![Fault::new("geo_replace", Op::GeoReplace { bits, w: width as u32 })],
        }
    };
    Phase {
        source: Source::Sweep { name: format!("sweep_small_geometry_len{}_w{}", max_len, max_width), prop: prop.into(), make: Box::new(make) },
        runs: total,
        wall_cap_s: 0,
    }
}

/// Every pair of neighbouring modules of every fixed-pattern track flipped, and every whole track
/// inverted / stuck dark / stuck light, for every size: deviations a single-module sweep cannot see.
pub fn c08_track_faults(seed: u64) -> Phase {
    // enumerate lazily: index -> (size, track, variant); variants: 3 whole-track ops + (len-1) neighbour pairs
    let mut table: Vec<(usize, usize, u64)> = Vec::new(); // (size, track index, first global index)
    let mut total = 0u64;
    for s in 0..N_SIZES {
        let tracks = crate::catalogue::fixed_tracks(&SIZES[s]);
        for (ti, t) in tracks.iter().enumerate() {
            table.push((s, ti, total));
            total += 5 + (t.len() as u64 - 1);
        }
    }
    let make = move |_ctx: &Ctx, i: u64| -> Trace {
        let k = match table.binary_search_by(|e| e.2.cmp(&i)) {
            Ok(k) => k,
            Err(k) => k - 1,
        };
        let (s, ti, first) = table[k];
        let v = i - first;
        let tracks = crate::catalogue::fixed_tracks(&SIZES[s]);
        let t = &tracks[ti];
        let mut faults = Vec::new();
        match v {
            0 => faults.extend(t.iter().map(|px| Fault::new("fix_track", Op::PxFlip { idx: *px }))),
            1 => faults.extend(t.iter().map(|px| Fault::new("fix_track", Op::PxSet { idx: *px, val: true }))),
            2 => faults.extend(t.iter().map(|px| Fault::new("fix_track", Op::PxSet { idx: *px, val: false }))),
            // the track without its end modules inverted; only its two end modules flipped
            3 => faults.extend(t[1..t.len() - 1].iter().map(|px| Fault::new("fix_track", Op::PxFlip { idx: *px }))),
            4 => {
                faults.push(Fault::new("fix_pair", Op::PxFlip { idx: t[0] }));
                faults.push(Fault::new("fix_pair", Op::PxFlip { idx: t[t.len() - 1] }));
            }
            _ => {
                let a = (v - 5) as usize;
                faults.push(Fault::new("fix_pair", Op::PxFlip { idx: t[a] }));
                faults.push(Fault::new("fix_pair", Op::PxFlip { idx: t[a + 1] }));
            }
        }
        Trace { prop: "C08".into(), producer: Producer::Raw { size: s, data: seeded_data(seed, s, v % 3) }, faults }
    };
    Phase {
        source: Source::Sweep { name: "sweep_fixed_tracks_and_neighbour_pairs".into(), prop: "C08".into(), make: Box::new(make) },
        runs: total,
        wall_cap_s: 0,
    }
}

/// 10x10: every error pattern of weight 3 = t+1 (56 position triples x 255^3 values): the complete
/// just-beyond-the-radius fault space of that size (the decoder is linear, so one data vector suffices).
pub fn c09_sq10_weight3(seed: u64) -> Phase {
    let n = SIZES[0].n_total() as u32; // 8
    let mut triples: Vec<(u32, u32, u32)> = Vec::new();
    for a in 0..n {
        for b in a + 1..n {
            for c in b + 1..n {
                triples.push((a, b, c));
            }
        }
    }
    const V: u64 = 255 * 255 * 255;
    let total = triples.len() as u64 * V;
    let make = move |_ctx: &Ctx, i: u64| -> Trace {
        let (a, b, c) = triples[(i / V) as usize];
        let r = i % V;
        Trace {
            prop: "C09".into(),
            producer: Producer::Raw { size: 0, data: seeded_data(seed, 0, 0) },
            faults: vec![
                Fault::new("cw_pair", Op::CwXor { pos: a, mask: (r / (255 * 255) + 1) as u8 }),
                Fault::new("cw_pair", Op::CwXor { pos: b, mask: ((r / 255) % 255 + 1) as u8 }),
                Fault::new("cw_pair", Op::CwXor { pos: c, mask: (r % 255 + 1) as u8 }),
            ],
        }
    };
    Phase {
        source: Source::Sweep { name: "sweep_sq10_all_weight3_codeword_stage_only".into(), prop: "C09".into(), make: Box::new(make) },
        runs: total,
        wall_cap_s: 0,
    }
}

/// One error beyond the capacity, systematically, on 12x12 and 8x18 (n = 12, k = 7, t = 3): every position quadruple
/// (495) x every value quadruple over 16 values (single bits, 0xFF, powers of alpha); codeword stage only.
pub fn c09_k7_weight4(seed: u64) -> Phase {
    const VALS: [u8; 16] = [1, 2, 4, 8, 16, 32, 64, 128, 0xFF, 0x2D, 0x5A, 0xB4, 0x45, 3, 0x55, 0xE4];
    let sizes: [usize; 2] = [1, 24];
    let n = 12u32;
    let mut quads: Vec<(u32, u32, u32, u32)> = Vec::new();
    for a in 0..n {
        for b in a + 1..n {
            for c in b + 1..n {
                for d in c + 1..n {
                    quads.push((a, b, c, d));
                }
            }
        }
    }
    const V: u64 = 16 * 16 * 16 * 16;
    let per_size = quads.len() as u64 * V;
    let make = move |_ctx: &Ctx, i: u64| -> Trace {
        let si = sizes[(i / per_size) as usize];
        let j = i % per_size;
        let (a, b, c, d) = quads[(j / V) as usize];
        let r = j % V;
        Trace {
            prop: "C09".into(),
            producer: Producer::Raw { size: si, data: seeded_data(seed, si, 0) },
            faults: vec![
                Fault::new("cw_pair", Op::CwXor { pos: a, mask: VALS[(r / 4096) as usize] }),
                Fault::new("cw_pair", Op::CwXor { pos: b, mask: VALS[((r / 256) % 16) as usize] }),
                Fault::new("cw_pair", Op::CwXor { pos: c, mask: VALS[((r / 16) % 16) as usize] }),
                Fault::new("cw_pair", Op::CwXor { pos: d, mask: VALS[(r % 16) as usize] }),
            ],
        }
    };
    Phase {
        source: Source::Sweep { name: "sweep_k7_weight4_codeword_stage_only".into(), prop: "C09".into(), make: Box::new(make) },
        runs: per_size * 2,
        wall_cap_s: 0,
    }
}

fn rand255(val: u8, pos1: usize) -> u8 {
    let pr = ((149 * pos1) % 255) + 1;
    ((val as usize + pr) % 256) as u8
}

/// Base256 runs whose length field (one- and two-codeword form, correctly scrambled for its stream
/// position) announces payload-2 .. payload+2 codewords, for every payload length up to `max_payload`,
/// after 0, 1 or 3 leading ASCII codewords: the "length field vs. end of stream" corner, enumerated.
pub fn c05_base256_lengths(seed: u64, max_payload: u64) -> Phase {
    let total = (max_payload + 1) * 5 * 3;
    let make = move |_ctx: &Ctx, i: u64| -> Trace {
        let prefix = [0usize, 1, 3][(i % 3) as usize];
        let r = i / 3;
        let delta = (r % 5) as i64 - 2;
        let payload = (r / 5) as usize;
        let mut rng = Rng::new(mix64(seed ^ i.wrapping_mul(0x9E37_79B9_7F4A_7C15)));
        let mut out: Vec<u8> = (0..prefix).map(|_| rng.range(1, 128) as u8).collect();
        out.push(231);
        let l = (payload as i64 + delta).max(0) as usize;
        if l < 250 {
            let p = out.len() + 1;
            out.push(rand255(l as u8, p));
        } else {
            let p = out.len() + 1;
            out.push(rand255((l / 250 + 249).min(255) as u8, p));
            let p = out.len() + 1;
            out.push(rand255((l % 250) as u8, p));
        }
        for _ in 0..payload {
            let p = out.len() + 1;
            out.push(rand255(rng.byte(), p));
        }
        Trace { prop: "C05".into(), producer: Producer::Stream { data: out }, faults: vec![] }
    };
    Phase {
        source: Source::Sweep { name: format!("sweep_base256_length_fields_payload_le_{}", max_payload), prop: "C05".into(), make: Box::new(make) },
        runs: total,
        wall_cap_s: 0,
    }
}

/// Dimension aliases of every catalogue size: off-by-one heights/widths, transposition, the same pixel
/// count framed with another catalogue width, doubled/halved dimensions, dimensions shifted by 256 and
/// 65536 (truncating casts), ragged variants - each with three fills and, where the pixel count allows,
/// with the pixels of a genuine rendering of the catalogue size re-framed.
pub fn dimension_aliases(prop: &'static str, seed: u64) -> Phase {
    // (size, variant) -> (len, width)
    const RADICES: [usize; 10] = [10, 100, 144, 145, 150, 200, 256, 1000, 1024, 65536];
    const NVAR: u64 = 34 + 4 * RADICES.len() as u64;
    let total = N_SIZES as u64 * NVAR * 4;
    let make = move |_ctx: &Ctx, i: u64| -> Trace {
        let fill = i % 4;
        let r = i / 4;
        let var = r % NVAR;
        let s = &SIZES[(r / NVAR) as usize];
        let (h, w) = (s.rows, s.cols);
        let n = h * w;
        let (len, width): (usize, usize) = match var {
            0 => ((h + 1) * w, w),
            1 => ((h - 1) * w, w),
            2 => (h * (w + 1), w + 1),
            3 => (h * (w - 1), w - 1),
            4 => (n, h),             // transposed framing
            5 => (n, n),             // one row
            6 => (n, 1),             // one column
            7 => (n + 1, w),
            8 => (n - 1, w),
            9 => (n + w / 2, w),
            10 => (h * (w + 256), w + 256),
            11 => ((h + 256) * w, w),
            12 => (2 * n, w),
            13 => (2 * n, 2 * w),
            14 => (n, 2 * w),
            15 => (n, w / 2),
            16 => (n, w + 256),
            17 => (n + 256 * h, w + 256),
            18 => (h * (w + 65536), w + 65536),
            19 => {
                // the pixel count of this size framed with the width of the next catalogue size
                let o = &SIZES[(s.idx + 1) % N_SIZES];
                (n, o.cols)
            }
            20 => {
                let o = &SIZES[(s.idx + 7) % N_SIZES];
                ((n / o.cols.max(1)) * o.cols, o.cols)
            }
            21 => (n + 256, w),
            // widths shifted by 256*j (packed / truncated dimension keys), with the height as is and with
            // the bits of j cleared from it
            22..=29 => {
                let j = [2usize, 4, 8, 16][((var - 22) / 2) as usize];
                let hh = if var % 2 == 0 { h } else { (h & !j).max(1) };
                (hh * (w + 256 * j), w + 256 * j)
            }
            // a partial extra row whose length is a multiple of the height
            30 => (n + h, w),
            31 => (n + 2 * h, w),
            32 => (n + h * (w / h).max(1), w),
            33 => (n - h, w),
            // carry / borrow between the two dimensions when they are packed into one key h * R + w or w * R + h:
            // (h - k, w + k R) and (h + k R, w - k) collide with (h, w) for such a key - tall narrow and flat wide arrays
            _ => {
                let q = (var - 34) as usize;
                let radix = RADICES[q / 4];
                let k = 1 + (q % 4) / 2;
                let (hh, ww) = if q % 2 == 0 { (h - k, w + k * radix) } else { (h + k * radix, w - k) };
                if hh * ww > 3_000_000 {
                    (n, w + 1)
                } else {
                    (hh * ww, ww)
                }
            }
        };
        let mut faults = Vec::new();
        let producer;
        if fill == 3 {
            // a genuine rendering of the catalogue size, re-framed / cut / extended to (len, width)
            producer = Producer::Raw { size: s.idx, data: seeded_data(seed, s.idx, var) };
            if len < n {
                faults.push(Fault::new("geo_trunc", Op::GeoTrunc { len: len as u32 }));
            } else if len > n {
                faults.push(Fault::new("geo_extend", Op::GeoExtend { bits: (0..len - n).map(|j| j % 3 == 0).collect() }));
            }
            faults.push(Fault::new("geo_width_skew", Op::GeoWidth { w: width as u32 }));
        } else {
            producer = Producer::Stream { data: vec![] };
            let bits: Vec<bool> = (0..len)
                .map(|j| match fill {
                    0 => false,
                    1 => true,
                    _ => j % 2 == 0,
                })
                .collect();
            faults.push(Fault::new("geo_replace", Op::GeoReplace { bits, w: width as u32 }));
        }
        Trace { prop: prop.into(), producer, faults }
    };
    Phase {
        source: Source::Sweep { name: "sweep_dimension_aliases".into(), prop: prop.into(), make: Box::new(make) },
        runs: total,
        wall_cap_s: 0,
    }
}

/// The string entry point, structurally: every combination of a head (none, macro 05/06, FNC1, macro+FNC1),
/// an initial charset switch (none, ECI 26, 27, 3, 11, 13), a body of up to three atoms (a letter, the macro
/// trailer bytes RS / EOT, GS, upper-shifted bytes that form or break multi-byte UTF-8, a digit pair, a pad),
/// an optional further charset switch at every position of the body, and a tail (nothing, pad, another switch).
pub fn c05_string_path_streams() -> Phase {
    const HEADS: [&[u8]; 5] = [&[], &[236], &[237], &[232], &[236, 232]];
    const ECI0: [&[u8]; 6] = [&[], &[241, 27], &[241, 28], &[241, 4], &[241, 12], &[241, 14]];
    const ATOMS: [&[u8]; 10] = [&[66], &[31], &[5], &[30], &[235, 68], &[235, 37], &[235, 99], &[235, 128], &[142], &[129]];
    const MID: [&[u8]; 3] = [&[241, 27], &[241, 4], &[241, 28]];
    const TAILS: [&[u8]; 4] = [&[], &[129], &[241, 27], &[241, 4]];
    const NBODY: u64 = 1 + 10 + 100 + 1000;
    const NMID: u64 = 1 + 3 * 4;
    let total = HEADS.len() as u64 * ECI0.len() as u64 * NBODY * NMID * TAILS.len() as u64;
    let make = move |_ctx: &Ctx, i: u64| -> Trace {
        let mut r = i;
        let tail = TAILS[(r % TAILS.len() as u64) as usize];
        r /= TAILS.len() as u64;
        let mid = r % NMID;
        r /= NMID;
        let body_i = r % NBODY;
        r /= NBODY;
        let eci0 = ECI0[(r % ECI0.len() as u64) as usize];
        r /= ECI0.len() as u64;
        let head = HEADS[(r % HEADS.len() as u64) as usize];
        // body atoms
        let atoms: Vec<usize> = if body_i == 0 {
            vec![]
        } else if body_i < 11 {
            vec![(body_i - 1) as usize]
        } else if body_i < 111 {
            let b = body_i - 11;
            vec![(b / 10) as usize, (b % 10) as usize]
        } else {
            let b = body_i - 111;
            vec![(b / 100) as usize, ((b / 10) % 10) as usize, (b % 10) as usize]
        };
        let (mid_eci, mid_pos): (Option<&[u8]>, usize) = if mid == 0 {
            (None, 0)
        } else {
            (Some(MID[((mid - 1) / 4) as usize]), ((mid - 1) % 4) as usize)
        };
        let mut data: Vec<u8> = Vec::new();
        data.extend_from_slice(head);
        data.extend_from_slice(eci0);
        for (k, a) in atoms.iter().enumerate() {
            if let Some(m) = mid_eci {
                if mid_pos == k {
                    data.extend_from_slice(m);
                }
            }
            data.extend_from_slice(ATOMS[*a]);
        }
        if let Some(m) = mid_eci {
            if mid_pos >= atoms.len() {
                data.extend_from_slice(m);
            }
        }
        data.extend_from_slice(tail);
        Trace { prop: "C05".into(), producer: Producer::Stream { data }, faults: vec![] }
    };
    Phase {
        source: Source::Sweep { name: "sweep_string_path_structured_streams".into(), prop: "C05".into(), make: Box::new(make) },
        runs: total,
        wall_cap_s: 0,
    }
}

/// Every one-codeword ECI designator (ECI 0..126, supported by the crate today or not) followed by every
/// output byte 0x00..0xFF (ASCII codeword, or upper shift for the high half), straight and behind a macro head:
/// the charset conversion tables of decode_str, byte by byte.
pub fn c05_eci_charset_bytes() -> Phase {
    let total: u64 = 127 * 256 * 2;
    let make = move |_ctx: &Ctx, i: u64| -> Trace {
        let macro_head = i % 2 == 1;
        let r = i / 2;
        let byte = (r % 256) as u8;
        let eci = (r / 256) as u8; // 0..=126
        let mut data: Vec<u8> = Vec::new();
        if macro_head {
            data.push(236);
        }
        data.push(241);
        data.push(eci + 1);
        if byte < 128 {
            data.push(byte + 1);
        } else {
            data.push(235);
            data.push(byte - 127);
        }
        Trace { prop: "C05".into(), producer: Producer::Stream { data }, faults: vec![] }
    };
    Phase {
        source: Source::Sweep { name: "sweep_every_eci_x_every_byte".into(), prop: "C05".into(), make: Box::new(make) },
        runs: total,
        wall_cap_s: 0,
    }
}

/// Long streams: output lengths and charset-span offsets placed around 2^8, 2^15, 2^16 and 2^17
/// (narrow integer types, capacity estimates), for plain runs, runs between charset switches, macro bodies.
pub fn c05_long_streams() -> Phase {
    const TARGETS: [usize; 14] = [255, 256, 257, 32767, 32768, 32769, 65534, 65535, 65536, 65537, 65542, 131071, 131072, 131073];
    const NSTRUCT: u64 = 6;
    let total = TARGETS.len() as u64 * NSTRUCT * 2;
    let make = move |_ctx: &Ctx, i: u64| -> Trace {
        let digits = i % 2 == 1;
        let r = i / 2;
        let st = r % NSTRUCT;
        let t = TARGETS[(r / NSTRUCT) as usize];
        let per = if digits { 2 } else { 1 };
        let unit: u8 = if digits { 142 } else { 0x42 };
        let run = |bytes: usize, out: &mut Vec<u8>| {
            for _ in 0..bytes / per {
                out.push(unit);
            }
            if bytes % per == 1 {
                out.push(0x42);
            }
        };
        let mut data: Vec<u8> = Vec::new();
        match st {
            0 => run(t, &mut data),
            1 => {
                data.extend_from_slice(&[241, 27]);
                run(t, &mut data);
                data.extend_from_slice(&[241, 4, 0x42]);
            }
            2 => {
                run(t / 3, &mut data);
                data.extend_from_slice(&[241, 27]);
                run(t - t / 3, &mut data);
                data.extend_from_slice(&[241, 4, 0x42]);
            }
            3 => {
                data.push(236);
                run(t.saturating_sub(7), &mut data);
            }
            4 => {
                data.extend_from_slice(&[237, 241, 27]);
                run(t.saturating_sub(7), &mut data);
                data.extend_from_slice(&[241, 4]);
            }
            _ => {
                run(t, &mut data);
                data.push(235);
            }
        }
        Trace { prop: "C05".into(), producer: Producer::Stream { data }, faults: vec![] }
    };
    Phase {
        source: Source::Sweep { name: "sweep_long_streams_around_powers_of_two".into(), prop: "C05".into(), make: Box::new(make) },
        runs: total,
        wall_cap_s: 0,
    }
}

/// The same relative fixed module flipped in EVERY region of a multi-region symbol (and in every second
/// region): deviations that repeat with the region period.
pub fn c08_periodic_fixed_faults(seed: u64) -> Phase {
    let mut table: Vec<(usize, u64)> = Vec::new(); // (size, first index)
    let mut total = 0u64;
    for s in 0..N_SIZES {
        let si = &SIZES[s];
        if si.reg_rows * si.reg_cols < 2 {
            continue;
        }
        let rh = si.rows / si.reg_rows;
        let rw = si.cols / si.reg_cols;
        table.push((s, total));
        total += (2 * (rw + rh) as u64 - 4) * 2;
    }
    let make = move |_ctx: &Ctx, i: u64| -> Trace {
        let k = match table.binary_search_by(|e| e.1.cmp(&i)) {
            Ok(k) => k,
            Err(k) => k - 1,
        };
        let (s, first) = table[k];
        let si = &SIZES[s];
        let rh = si.rows / si.reg_rows;
        let rw = si.cols / si.reg_cols;
        let r = i - first;
        let every_second = r % 2 == 1;
        let m = (r / 2) as usize; // index along the region's border: top row, right column, bottom row, left column
        let (dr, dc) = if m < rw {
            (0, m)
        } else if m < rw + rh - 1 {
            (m - rw + 1, rw - 1)
        } else if m < 2 * rw + rh - 2 {
            (rh - 1, 2 * rw + rh - 3 - m)
        } else {
            (2 * (rw + rh) - 4 - m, 0)
        };
        let mut faults = Vec::new();
        let mut n = 0;
        for rr in 0..si.reg_rows {
            for rc in 0..si.reg_cols {
                n += 1;
                if every_second && n % 2 == 0 {
                    continue;
                }
                let px = (rr * rh + dr) * si.cols + rc * rw + dc;
                faults.push(Fault::new("fix_flip", Op::PxFlip { idx: px as u32 }));
            }
        }
        Trace { prop: "C08".into(), producer: Producer::Raw { size: s, data: seeded_data(seed, s, r % 3) }, faults }
    };
    Phase {
        source: Source::Sweep { name: "sweep_same_fixed_module_in_every_region".into(), prop: "C08".into(), make: Box::new(make) },
        runs: total,
        wall_cap_s: 0,
    }
}

/// Several tracks of the fixed pattern changed TOGETHER: for every region, every pair of its four tracks with
/// each of them inverted whole or without its end modules; and for every region row / region column the whole
/// "clock system" (the clock line plus the clock segments of all regions on it, whole or interiors) inverted.
/// A parser that checks the clock tracks only against each other (a lost phase anchor) accepts these.
pub fn c08_track_combinations(seed: u64) -> Phase {
    // per size: regions * 6 pairs * 4 op combinations + (reg_rows + reg_cols) * 4 composites
    let mut table: Vec<(usize, u64)> = Vec::new();
    let mut total = 0u64;
    for s in 0..N_SIZES {
        let si = &SIZES[s];
        table.push((s, total));
        total += (si.reg_rows * si.reg_cols) as u64 * 24 + (si.reg_rows + si.reg_cols) as u64 * 4;
    }
    let make = move |_ctx: &Ctx, i: u64| -> Trace {
        let k = match table.binary_search_by(|e| e.1.cmp(&i)) {
            Ok(k) => k,
            Err(k) => k - 1,
        };
        let (s, first) = table[k];
        let si = &SIZES[s];
        let (h, w) = (si.rows, si.cols);
        let rh = h / si.reg_rows;
        let rw = w / si.reg_cols;
        let r = i - first;
        let n_reg = (si.reg_rows * si.reg_cols) as u64;
        let track = |rr: usize, rc: usize, which: usize| -> Vec<u32> {
            let r0 = rr * rh;
            let c0 = rc * rw;
            match which {
                0 => (0..rw).map(|c| (r0 * w + c0 + c) as u32).collect(),              // top clock row
                1 => (0..rh).map(|q| ((r0 + q) * w + c0 + rw - 1) as u32).collect(),  // right clock column
                2 => (0..rw).map(|c| ((r0 + rh - 1) * w + c0 + c) as u32).collect(),  // bottom solid row
                _ => (0..rh).map(|q| ((r0 + q) * w + c0) as u32).collect(),           // left solid column
            }
        };
        let mut flips: Vec<u32> = Vec::new();
        let mut add = |t: Vec<u32>, interior: bool, flips: &mut Vec<u32>| {
            let sl = if interior && t.len() > 2 { &t[1..t.len() - 1] } else { &t[..] };
            for p in sl {
                if let Some(pos) = flips.iter().position(|q| q == p) {
                    flips.remove(pos); // flipped twice = unchanged
                } else {
                    flips.push(*p);
                }
            }
        };
        if r < n_reg * 24 {
            let reg = (r / 24) as usize;
            let v = r % 24;
            let pair = [(0usize, 1usize), (0, 2), (0, 3), (1, 2), (1, 3), (2, 3)][(v / 4) as usize];
            let (ia, ib) = ((v % 4) / 2 == 1, v % 2 == 1);
            let (rr, rc) = (reg / si.reg_cols, reg % si.reg_cols);
            add(track(rr, rc, pair.0), ia, &mut flips);
            add(track(rr, rc, pair.1), ib, &mut flips);
        } else {
            let q = r - n_reg * 24;
            let line = (q / 4) as usize;
            let v = q % 4;
            if line < si.reg_rows {
                // the clock system of a region row: its top clock line + the right clock segments of its regions
                let rr = line;
                for rc in 0..si.reg_cols {
                    add(track(rr, rc, 0), false, &mut flips);
                }
                if v % 2 == 1 {
                    // without the two ends of the line
                    let a = (rr * rh * w) as u32;
                    let b = (rr * rh * w + w - 1) as u32;
                    for e in [a, b] {
                        if let Some(pos) = flips.iter().position(|x| *x == e) {
                            flips.remove(pos);
                        }
                    }
                }
                for rc in 0..si.reg_cols {
                    add(track(rr, rc, 1), v / 2 == 0, &mut flips);
                }
            } else {
                // the clock system of a region column: its right clock line + the top clock segments of its regions
                let rc = line - si.reg_rows;
                for rr in 0..si.reg_rows {
                    add(track(rr, rc, 1), false, &mut flips);
                }
                for rr in 0..si.reg_rows {
                    add(track(rr, rc, 0), v / 2 == 0, &mut flips);
                }
                if v % 2 == 1 {
                    // and the top line of the whole symbol as well
                    for c in 0..w {
                        let p = c as u32;
                        if let Some(pos) = flips.iter().position(|x| *x == p) {
                            flips.remove(pos);
                        } else {
                            flips.push(p);
                        }
                    }
                }
            }
        }
        let faults = flips.into_iter().map(|p| Fault::new("fix_track", Op::PxFlip { idx: p })).collect();
        Trace { prop: "C08".into(), producer: Producer::Raw { size: s, data: seeded_data(seed, s, r % 3) }, faults }
    };
    Phase {
        source: Source::Sweep { name: "sweep_track_combinations_and_clock_systems".into(), prop: "C08".into(), make: Box::new(make) },
        runs: total,
        wall_cap_s: 0,
    }
}

/// Streams long enough for position-dependent arithmetic (the 253/255-state un-scrambling multiplies the
/// stream position by 149) to cross 2^31 and 2^32: a run of ASCII followed by a pad / a Base256 run.
pub fn c05_huge_positions() -> Phase {
    const LENS: [usize; 3] = [14_412_700, 16_777_300, 28_825_300];
    let total = LENS.len() as u64 * 2;
    let make = move |_ctx: &Ctx, i: u64| -> Trace {
        let n = LENS[(i / 2) as usize];
        let mut data = vec![66u8; n];
        if i % 2 == 0 {
            data.extend_from_slice(&[129, 200, 17]);
        } else {
            data.extend_from_slice(&[231, 7, 1, 2, 3, 4, 5, 6, 7, 8]);
        }
        Trace { prop: "C05".into(), producer: Producer::Stream { data }, faults: vec![] }
    };
    Phase {
        source: Source::Sweep { name: "sweep_stream_positions_beyond_2_pow_31_over_149".into(), prop: "C05".into(), make: Box::new(make) },
        runs: total,
        wall_cap_s: 0,
    }
}

/// C40 / Text / X12: every sequence of six values (two pairs) over the values that change the decoder's state
/// or sit at the edge of a table {0,1,2,3,27,30,31,32,39}, behind each of the three latches.
pub fn c05_c40_value_sequences() -> Phase {
    // the FIRST value of a pair can also be 40 (pairs from (250, 1) on): ten values there, nine elsewhere
    const V: [u32; 10] = [0, 1, 2, 3, 27, 30, 31, 32, 39, 40];
    const N: u64 = 10 * 9 * 9 * 10 * 9 * 9;
    let total = N * 3;
    let make = move |_ctx: &Ctx, i: u64| -> Trace {
        let latch = [230u8, 239, 238][(i / N) as usize];
        let mut r = i % N;
        let mut vals = [0u32; 6];
        for (q, v) in vals.iter_mut().enumerate() {
            let base = if q % 3 == 0 { 10 } else { 9 };
            *v = V[(r % base) as usize];
            r /= base;
        }
        let mut data = vec![latch];
        for p in 0..2 {
            let x = (1600 * vals[3 * p] + 40 * vals[3 * p + 1] + vals[3 * p + 2] + 1).min(65535);
            data.push((x >> 8) as u8);
            data.push((x & 0xFF) as u8);
        }
        Trace { prop: "C05".into(), producer: Producer::Stream { data }, faults: vec![] }
    };
    Phase {
        source: Source::Sweep { name: "sweep_c40_text_x12_value_sequences".into(), prop: "C05".into(), make: Box::new(make) },
        runs: total,
        wall_cap_s: 0,
    }
}

/// What FOLLOWS a C40 / Text / X12 segment (round 25): every one-pair segment over the special values x the unlatch x
/// 24 continuations (nothing, a character, upper shift + a low / high / no codeword, a charset switch with a high
/// byte, a one-byte Base256 segment, a re-latch into each mode, pad, FNC1, a digit pair, a second unlatch, ...), and
/// every two-pair segment x the three continuations that produce a byte (plain, upper-shifted low, upper-shifted high).
/// State that a segment's last values leave behind (a pending shift, an upper shift) meets every kind of next segment.
pub fn c05_c40_then_tail() -> Phase {
    const V: [u32; 10] = [0, 1, 2, 3, 27, 30, 31, 32, 39, 40];
    const P: u64 = 10 * 9 * 9;
    const T1: u64 = 24;
    const T2: u64 = 3;
    let n1 = P * T1;
    let n2 = P * P * T2;
    let total = (n1 + n2) * 3;
    fn pair(r: u64, data: &mut Vec<u8>) {
        const V: [u32; 10] = [0, 1, 2, 3, 27, 30, 31, 32, 39, 40];
        let a = V[(r % 10) as usize];
        let b = V[((r / 10) % 9) as usize];
        let c = V[((r / 90) % 9) as usize];
        let x = (1600 * a + 40 * b + c + 1).min(65535);
        data.push((x >> 8) as u8);
        data.push((x & 0xFF) as u8);
    }
    let _ = V;
    let make = move |_ctx: &Ctx, i: u64| -> Trace {
        let latch = [230u8, 239, 238][(i / (n1 + n2)) as usize];
        let r = i % (n1 + n2);
        let mut data = vec![latch];
        let tail: u64;
        if r < n1 {
            pair(r % P, &mut data);
            tail = r / P;
        } else {
            let q = r - n1;
            pair(q % P, &mut data);
            pair((q / P) % P, &mut data);
            tail = [1u64, 2, 3][(q / (P * P)) as usize];
        }
        data.push(254);
        match tail {
            0 => {}
            1 => data.push(0x42),
            2 => data.extend_from_slice(&[235, 1]),
            3 => data.extend_from_slice(&[235, 128]),
            4 => data.push(235),
            5 => data.extend_from_slice(&[241, 27, 235, 0x45]),
            6 => data.extend_from_slice(&[241, 4, 235, 0x60]),
            7 => {
                data.push(231);
                let p = data.len() + 1;
                data.push(rand255(1, p));
                let p = data.len() + 1;
                data.push(rand255(0xE4, p));
            }
            8 => data.extend_from_slice(&[230, 0x59, 0xBF, 254]),
            9 => data.extend_from_slice(&[239, 0x59, 0xBF, 254]),
            10 => data.extend_from_slice(&[238, 0x59, 0xBF, 254]),
            11 => data.extend_from_slice(&[240, 0x04, 0x21, 0x5F]),
            12 => data.push(129),
            13 => data.push(232),
            14 => data.push(142),
            15 => data.push(254),
            16 => data.extend_from_slice(&[230, 0x06, 0x69]), // re-latch, shift values, never unlatched
            17 => data.extend_from_slice(&[239, 254, 235, 0x7F]),
            18 => data.extend_from_slice(&[235, 235, 1]),
            19 => data.extend_from_slice(&[0x42, 235, 128, 0x42]),
            20 => data.extend_from_slice(&[236]),
            21 => data.extend_from_slice(&[233, 0x11, 1, 1]),
            22 => data.extend_from_slice(&[241, 235]),
            _ => {
                // no unlatch at all: the continuation is read as values
                data.pop();
                data.extend_from_slice(&[235, 1]);
            }
        }
        Trace { prop: "C05".into(), producer: Producer::Stream { data }, faults: vec![] }
    };
    Phase {
        source: Source::Sweep { name: "sweep_c40_text_x12_segment_then_continuation".into(), prop: "C05".into(), make: Box::new(make) },
        runs: total,
        wall_cap_s: 0,
    }
}

/// Fabricated symbols (template-correct fixed pattern) whose data area is uniform except for ONE data row or
/// ONE data column of the other colour, for every row and column of every size, both polarities; plus the
/// plain stripe / checkerboard fills. Content that random data never produces.
pub fn structured_data_fills(prop: &'static str) -> Phase {
    let mut table: Vec<(usize, u64)> = Vec::new();
    let mut total = 0u64;
    for s in 0..N_SIZES {
        table.push((s, total));
        total += (SIZES[s].rows + SIZES[s].cols) as u64 * 2 + 6;
    }
    let make = move |_ctx: &Ctx, i: u64| -> Trace {
        let k = match table.binary_search_by(|e| e.1.cmp(&i)) {
            Ok(k) => k,
            Err(k) => k - 1,
        };
        let (s, first) = table[k];
        let si = &SIZES[s];
        let (h, w) = (si.rows, si.cols);
        let r = (i - first) as usize;
        let tpl = crate::catalogue::fixed_template(si);
        let lines = h + w;
        let bits: Vec<bool> = tpl
            .iter()
            .enumerate()
            .map(|(px, t)| match t {
                Some(d) => *d,
                None => {
                    let (y, x) = (px / w, px % w);
                    if r < 2 * lines {
                        let base = r >= lines;
                        let l = r % lines;
                        let on_line = if l < h { y == l } else { x == l - h };
                        on_line != base
                    } else {
                        match r - 2 * lines {
                            0 => y % 2 == 0,
                            1 => y % 2 == 1,
                            2 => x % 2 == 0,
                            3 => x % 2 == 1,
                            4 => (x + y) % 2 == 0,
                            _ => (x + y) % 2 == 1,
                        }
                    }
                }
            })
            .collect();
        Trace {
            prop: prop.into(),
            producer: Producer::Stream { data: vec![] },
            faults: vec![Fault::new("geo_replace", Op::GeoReplace { bits, w: w as u32 })],
        }
    };
    Phase {
        source: Source::Sweep { name: "sweep_structured_data_fills".into(), prop: prop.into(), make: Box::new(make) },
        runs: total,
        wall_cap_s: 0,
    }
}

/// Every non-empty subset of each small fixed structure flipped together: the 2x2 fixed corner of
/// 12x12/16x16/20x20/24x24, the four corner modules of the symbol, the four corner modules of every region.
pub fn c08_small_structure_subsets(seed: u64) -> Phase {
    let mut table: Vec<(usize, u64)> = Vec::new();
    let mut total = 0u64;
    for s in 0..N_SIZES {
        let si = &SIZES[s];
        table.push((s, total));
        let structures = 1 + (si.reg_rows * si.reg_cols) as u64 + if si.has_fixed_corner() { 1 } else { 0 };
        total += structures * 15;
    }
    let make = move |_ctx: &Ctx, i: u64| -> Trace {
        let k = match table.binary_search_by(|e| e.1.cmp(&i)) {
            Ok(k) => k,
            Err(k) => k - 1,
        };
        let (s, first) = table[k];
        let si = &SIZES[s];
        let (h, w) = (si.rows, si.cols);
        let rh = h / si.reg_rows;
        let rw = w / si.reg_cols;
        let r = i - first;
        let st = (r / 15) as usize;
        let subset = (r % 15) + 1;
        let n_reg = si.reg_rows * si.reg_cols;
        let quad: [usize; 4] = if st == 0 {
            [0, w - 1, (h - 1) * w, (h - 1) * w + w - 1]
        } else if st <= n_reg {
            let (rr, rc) = ((st - 1) / si.reg_cols, (st - 1) % si.reg_cols);
            let (r0, c0) = (rr * rh, rc * rw);
            [r0 * w + c0, r0 * w + c0 + rw - 1, (r0 + rh - 1) * w + c0, (r0 + rh - 1) * w + c0 + rw - 1]
        } else {
            [(h - 3) * w + w - 3, (h - 3) * w + w - 2, (h - 2) * w + w - 3, (h - 2) * w + w - 2]
        };
        let mut faults = Vec::new();
        for (b, px) in quad.iter().enumerate() {
            if subset & (1 << b) != 0 {
                faults.push(Fault::new("fix_flip", Op::PxFlip { idx: *px as u32 }));
            }
        }
        Trace { prop: "C08".into(), producer: Producer::Raw { size: s, data: seeded_data(seed, s, r % 3) }, faults }
    };
    Phase {
        source: Source::Sweep { name: "sweep_subsets_of_small_fixed_structures".into(), prop: "C08".into(), make: Box::new(make) },
        runs: total,
        wall_cap_s: 0,
    }
}

/// Charset sections, byte by byte: under ECI 26 / 27 / 3 every pair of high bytes (upper-shifted), ended by
/// nothing, a pad or a further charset switch; under ECI 26 additionally every triple of high bytes.
pub fn c05_charset_sections() -> Phase {
    const PAIRS: u64 = 128 * 128;
    const TRIPLES: u64 = 128 * 128 * 128;
    let total = 3 * PAIRS * 3 + TRIPLES;
    let make = move |_ctx: &Ctx, i: u64| -> Trace {
        let mut data: Vec<u8> = Vec::new();
        if i < 3 * PAIRS * 3 {
            let tail = i % 3;
            let r = i / 3;
            let eci = [27u8, 28, 4][(r / PAIRS) as usize];
            let p = r % PAIRS;
            data.extend_from_slice(&[241, eci, 235, (p / 128) as u8 + 1, 235, (p % 128) as u8 + 1]);
            match tail {
                1 => data.push(129),
                2 => data.extend_from_slice(&[241, 4, 66]),
                _ => {}
            }
        } else {
            let t = i - 3 * PAIRS * 3;
            data.extend_from_slice(&[241, 27, 235, (t / (128 * 128)) as u8 + 1, 235, ((t / 128) % 128) as u8 + 1, 235, (t % 128) as u8 + 1]);
        }
        Trace { prop: "C05".into(), producer: Producer::Stream { data }, faults: vec![] }
    };
    Phase {
        source: Source::Sweep { name: "sweep_charset_sections_all_high_byte_pairs_and_triples".into(), prop: "C05".into(), make: Box::new(make) },
        runs: total,
        wall_cap_s: 0,
    }
}

/// Weight-2 patterns with one error on an edge of the block: every codeword position of every size paired
/// with the last EC codeword, the second-to-last EC codeword and the first data codeword OF ITS BLOCK, the
/// edge error taking `nvals` values (255 = all; otherwise the field's boundary elements alpha^0, alpha^1,
/// alpha^2, alpha^127, alpha^128, alpha^253, alpha^254, 0x80, 0xFF and seeded others), the free error a seeded
/// value. Two-error decoding has closed forms and table look-ups whose corner cases sit at extreme logs.
pub fn c03_edge_pairs(seed: u64, nvals: u64) -> Phase {
    let prefix = prefix_of(|s| SIZES[s].n_total() as u64 * 3 * nvals);
    let total = prefix[N_SIZES];
    let make = move |ctx: &Ctx, i: u64| -> Trace {
        let (s, r) = locate(&prefix, i);
        let si = &SIZES[s];
        let vi = r % nvals;
        let r2 = r / nvals;
        let partner_kind = (r2 % 3) as usize;
        let p = (r2 / 3) as usize;
        let b = si.block_of(p);
        let bp = si.block_positions(b);
        let partner = match partner_kind {
            0 => bp[bp.len() - 1],
            1 => bp[bp.len() - 2],
            _ => bp[0],
        };
        let gf = &ctx.gf;
        let val: u8 = if nvals == 255 {
            (vi + 1) as u8
        } else {
            match vi {
                0 => gf.alpha_pow(0),
                1 => gf.alpha_pow(1),
                2 => gf.alpha_pow(2),
                3 => gf.alpha_pow(127),
                4 => gf.alpha_pow(128),
                5 => gf.alpha_pow(253),
                6 => gf.alpha_pow(254),
                7 => 0x80,
                8 => 0xFF,
                _ => (mix64(seed ^ i.wrapping_mul(0x9E37_79B9_7F4A_7C15)) % 255) as u8 + 1,
            }
        };
        let free = (mix64(seed ^ 0x55 ^ (p as u64).wrapping_mul(0xD1B5_4A32_D192_ED03)) % 255) as u8 + 1;
        let mut faults = vec![Fault::new("cw_pair", Op::CwXor { pos: partner as u32, mask: val })];
        if partner != p {
            faults.push(Fault::new("cw_pair", Op::CwXor { pos: p as u32, mask: free }));
        }
        Trace { prop: "C03".into(), producer: Producer::Raw { size: s, data: seeded_data(seed, s, (p as u64) % 3) }, faults }
    };
    Phase {
        source: Source::Sweep { name: format!("sweep_edge_pairs_x{}_codeword_stage_only", nvals), prop: "C03".into(), make: Box::new(make) },
        runs: total,
        wall_cap_s: 0,
    }
}

/// Duplication: one legal construct of the data decoder's grammar delivered n times in a row, for EVERY count
/// n = 1..=1600 (beyond the largest symbol's 1558 data codewords), around powers of two up to 2^16 and around round
/// decimal numbers up to 100 000, with
/// and without a macro head. Counts - not values, positions or lengths - are what a fixed-capacity buffer,
/// a narrow counter or a "cannot happen more than capacity / 2 times" estimate depends on.
pub fn c05_repeated_atoms() -> Phase {
    const NATOMS: u64 = 32;
    // around powers of two, and around round decimal numbers (limits are written in decimal as often as in binary)
    const EXTRA: [u64; 40] = [
        2047, 2048, 2049, 4095, 4096, 4097, 8191, 8192, 8193, 16384, 32767, 32768, 32769, 65535, 65537, 1997, 1998, 1999, 2000, 2001, 4999, 5000, 5001, 9997, 9998,
        9999, 10000, 10001, 49999, 50000, 50001, 99996, 99997, 99998, 99999, 100000, 100001, 100002, 100003, 100004,
    ];
    const DENSE: u64 = 1600;
    let per_atom = DENSE + EXTRA.len() as u64;
    let total = NATOMS * per_atom * 2;
    let make = move |_ctx: &Ctx, i: u64| -> Trace {
        let macro_head = i % 2 == 1;
        let r = i / 2;
        let atom = r / per_atom;
        let ni = r % per_atom;
        let n = if ni < DENSE { ni + 1 } else { EXTRA[(ni - DENSE) as usize] } as usize;
        let mut data: Vec<u8> = Vec::new();
        if macro_head {
            data.push(236);
        }
        // the designator of charset number e (one-, two- or three-codeword form)
        fn eci(data: &mut Vec<u8>, e: usize) {
            data.push(241);
            if e <= 126 {
                data.push(e as u8 + 1);
            } else if e <= 16382 {
                data.push(((e - 127) / 254 + 128) as u8);
                data.push(((e - 127) % 254 + 1) as u8);
            } else {
                let e = (e - 16383) % (16 * 254 * 254);
                data.push((e / 64516 + 192) as u8);
                data.push(((e / 254) % 254 + 1) as u8);
                data.push((e % 254 + 1) as u8);
            }
        }
        for j in 0..n {
            match atom {
                // the same construct with a DIFFERENT parameter every time: n distinct values, not n copies of one
                24 => { eci(&mut data, j); data.push(0x42); }        // charsets 0, 1, 2, ... each with a character
                25 => eci(&mut data, j),                             // ... and without
                26 => { eci(&mut data, 127 + j); data.push(0x42); }  // distinct two-codeword designators
                27 => { eci(&mut data, 16383 + j * 251); data.push(0x42); } // distinct three-codeword designators
                28 => { eci(&mut data, 2 + j % 28); data.extend_from_slice(&[235, 0x45]); } // cycling through the low charsets, a high byte each
                29 => { let v = (j * 40 + 1) % 65535; data.extend_from_slice(&[230, (v >> 8) as u8, (v & 0xFF) as u8, 254]); } // C40 segments, a different triple each
                30 => data.extend_from_slice(&[235, 1 + (j % 128) as u8]), // upper shift of every byte in turn
                31 => { data.push(231); let p = data.len() + 1; data.push(rand255(1, p)); let p = data.len() + 1; data.push(rand255((j % 256) as u8, p)); } // Base256 segments of one byte, every byte in turn
                0 => data.extend_from_slice(&[241, 27]),            // ECI 26
                1 => data.extend_from_slice(&[241, 4, 0x42]),       // ECI 3 + a character
                2 => data.extend_from_slice(&[241, 128, 1]),        // two-byte designator
                3 => data.extend_from_slice(&[241, 192, 1, 1]),     // three-byte designator
                4 => data.extend_from_slice(&[241, 27, 235, 0x45]), // ECI 26 + a high byte
                5 => data.extend_from_slice(&[235, 1]),             // upper shift
                6 => data.push(232),                                // FNC1
                7 => data.push(142),                                // a digit pair
                8 => data.extend_from_slice(&[230, 0x59, 0xBF, 254]), // C40 latch, one triple, unlatch
                9 => data.extend_from_slice(&[239, 0x59, 0xBF, 254]), // Text
                10 => data.extend_from_slice(&[238, 0x59, 0xBF, 254]), // X12
                11 => data.extend_from_slice(&[240, 0x04, 0x21, 0x5F]), // EDIFACT: three values and the unlatch
                12 => {
                    // Base256 segment of one byte (length and byte randomised for their positions)
                    data.push(231);
                    let p = data.len() + 1;
                    data.push(rand255(1, p));
                    let p = data.len() + 1;
                    data.push(rand255(0xE4, p));
                }
                13 => data.extend_from_slice(&[230, 254]),         // latch and unlatch at once
                14 => data.extend_from_slice(&[233, 0x11, 1, 1]),  // structured append (legal only first)
                15 => data.push(234),                              // reader programming
                16 => data.extend_from_slice(&[230, 0x06, 0x69]),  // C40 latch + shift values, never unlatched
                17 => data.extend_from_slice(&[241, 27, 31, 5]),   // ECI + RS EOT (the macro trailer as data)
                // two DIFFERENT constructs alternating: mode toggles back to back
                18 => data.extend_from_slice(&[230, 254, 239, 254]),                       // C40 / Text, empty bodies
                19 => data.extend_from_slice(&[230, 0x59, 0xBF, 254, 239, 0x59, 0xBF, 254]), // C40 / Text with a triple each
                20 => data.extend_from_slice(&[238, 0x59, 0xBF, 254, 230, 0x59, 0xBF, 254]), // X12 / C40
                21 => data.extend_from_slice(&[240, 0x04, 0x21, 0x5F, 230, 254]),          // EDIFACT / C40
                22 => data.extend_from_slice(&[241, 27, 230, 254]),                        // charset switch / C40 toggle
                _ => data.extend_from_slice(&[235, 1, 241, 4]),                            // upper shift / charset switch
            }
        }
        Trace { prop: "C05".into(), producer: Producer::Stream { data }, faults: vec![] }
    };
    Phase {
        source: Source::Sweep { name: "sweep_repeated_constructs_every_count".into(), prop: "C05".into(), make: Box::new(make) },
        runs: total,
        wall_cap_s: 0,
    }
}

/// Substitution by a valid shorter message, enumerated: for every size, messages of 1..=10 characters from three
/// alphabets (upper case, digit pairs, lower case); the medium overwrites - from the front or from the back, as
/// far as the correction radius allows - the data codewords with those of every proper prefix of the message
/// (including the empty message: nothing but correctly randomised padding). Whole pipeline, pixel stage.
pub fn c03_impostor_messages() -> Phase {
    const MAXLEN: u64 = 10;
    const PER_ALPHA: u64 = MAXLEN * (MAXLEN + 1) / 2; // (m, prefix) pairs with prefix < m
    let per_size = 3 * PER_ALPHA * 2;
    let total = N_SIZES as u64 * per_size;
    let make = move |_ctx: &Ctx, i: u64| -> Trace {
        let s = (i / per_size) as usize;
        let r = i % per_size;
        let order = (r % 2) as usize;
        let r = r / 2;
        let alpha = r / PER_ALPHA;
        let mut k = r % PER_ALPHA;
        let mut m = 1u64;
        while k >= m {
            k -= m;
            m += 1;
        }
        let pre = k as usize; // 0..m-1
        let unit = |j: u64| -> Vec<u8> {
            match alpha {
                0 => vec![b'A' + (j % 26) as u8],
                1 => vec![b'0' + (j % 10) as u8, b'0' + ((j * 7 + 3) % 10) as u8],
                _ => vec![b'a' + (j % 26) as u8],
            }
        };
        let mut msg: Vec<u8> = Vec::new();
        let mut cut = 0usize;
        for j in 0..m {
            if j as usize == pre {
                cut = msg.len();
            }
            msg.extend(unit(j));
        }
        let list = crate::trace::ListSpec::Single(s);
        let producer = Producer::Msg { msg: msg.clone(), list: list.clone(), modes: 0x3F, macros: true, fnc1: false, eci: None };
        let mut faults = Vec::new();
        if let (Ok(Some((_, da, _))), Ok(Some((_, db, _)))) = (
            crate::exec::produce_msg(&msg, &list, 0x3F, true, false, None),
            crate::exec::produce_msg(&msg[..cut], &list, 0x3F, true, false, None),
        ) {
            faults = crate::gen::impostor_faults(&SIZES[s], &da, &db, order, None);
        }
        Trace { prop: "C03".into(), producer, faults }
    };
    Phase {
        source: Source::Sweep { name: "sweep_shorter_valid_message_substituted".into(), prop: "C03".into(), make: Box::new(make) },
        runs: total,
        wall_cap_s: 0,
    }
}

/// Extreme widths (the ends of the usize range, the 2^31 / 2^32 / 2^63 boundaries, catalogue widths plus 2^32)
/// for the empty array, one- and two-pixel arrays, and a valid 10x10 symbol's 100 pixels.
pub fn extreme_widths(prop: &'static str) -> Phase {
    let n = crate::trace::N_HUGE_WIDTHS as u64;
    let total = n * 4;
    let make = move |_ctx: &Ctx, i: u64| -> Trace {
        let code = (i % n) as u32;
        let len = match i / n {
            0 => 0usize,
            1 => 1,
            2 => 2,
            _ => 100,
        };
        let bits: Vec<bool> = if len == 100 {
            crate::catalogue::fixed_template(&SIZES[0]).iter().map(|t| t.unwrap_or(false)).collect()
        } else {
            vec![true; len]
        };
        Trace {
            prop: prop.into(),
            producer: Producer::Stream { data: vec![] },
            faults: vec![
                Fault::new("geo_replace", Op::GeoReplace { bits, w: 10 }),
                Fault::new("geo_width_skew", Op::GeoWidthHuge { code }),
            ],
        }
    };
    Phase {
        source: Source::Sweep { name: "sweep_extreme_widths".into(), prop: prop.into(), make: Box::new(make) },
        runs: total,
        wall_cap_s: 0,
    }
}

/// Every two-byte charset designator (ECI 127..16382) x every byte value (below 128 as an ASCII codeword, above as
/// an upper-shifted one), through decode_data and decode_str; `nbytes` < 256 restricts the byte values to a
/// boundary set. Charset tables are keyed by the designator's NUMBER; this leaves no number untried.
pub fn c05_eci_two_byte_designators(all_bytes: bool) -> Phase {
    const B: [u8; 16] = [0x00, 0x1F, 0x20, 0x41, 0x7E, 0x7F, 0x80, 0x81, 0x9F, 0xA0, 0xA1, 0xBF, 0xC0, 0xE0, 0xFE, 0xFF];
    let nb: u64 = if all_bytes { 256 } else { B.len() as u64 };
    let n_eci: u64 = 16382 - 127 + 1;
    let total = n_eci * nb;
    let make = move |_ctx: &Ctx, i: u64| -> Trace {
        let c = (i / nb) as usize; // eci - 127
        let byte = if all_bytes { (i % nb) as u8 } else { B[(i % nb) as usize] };
        let mut data: Vec<u8> = vec![241, (c / 254 + 128) as u8, (c % 254 + 1) as u8];
        if byte < 128 {
            data.push(byte + 1);
        } else {
            data.push(235);
            data.push(byte - 127);
        }
        Trace { prop: "C05".into(), producer: Producer::Stream { data }, faults: vec![] }
    };
    Phase {
        source: Source::Sweep { name: format!("sweep_every_two_byte_eci_x_{}_bytes", nb), prop: "C05".into(), make: Box::new(make) },
        runs: total,
        wall_cap_s: 0,
    }
}

/// Three-byte designators (ECI 16383..999999): every number (or every 61st, jittered) with four byte values.
pub fn c05_eci_three_byte_designators(all: bool) -> Phase {
    const B: [u8; 4] = [0x41, 0x80, 0xA0, 0xFF];
    let n_eci: u64 = 999_999 - 16_383 + 1;
    let picks: u64 = if all { n_eci } else { n_eci / 61 + 1 };
    let total = picks * B.len() as u64;
    let make = move |_ctx: &Ctx, i: u64| -> Trace {
        let byte = B[(i % 4) as usize];
        let q = i / 4;
        let c = if all { q } else { (q * 61 + (q % 7)).min(n_eci - 1) } as usize; // eci - 16383
        let mut data: Vec<u8> = vec![241, (c / 64516 + 192) as u8, ((c / 254) % 254 + 1) as u8, (c % 254 + 1) as u8];
        if byte < 128 {
            data.push(byte + 1);
        } else {
            data.push(235);
            data.push(byte - 127);
        }
        Trace { prop: "C05".into(), producer: Producer::Stream { data }, faults: vec![] }
    };
    Phase {
        source: Source::Sweep { name: format!("sweep_three_byte_eci_{}_numbers_x_4_bytes", picks), prop: "C05".into(), make: Box::new(make) },
        runs: total,
        wall_cap_s: 0,
    }
}

/// Data lines that imitate the fixed pattern, enumerated: for every size and both orientations, the last data line
/// before and the first after every interior region boundary painted with every pair of the four patterns (dark,
/// light, clock phase, other phase), and the data line next to each outer edge with each pattern - kept only when
/// the damage stays within the correction radius (three data vectors are tried). Whole pipeline, pixel stage.
pub fn c03_mimic_boundaries(seed: u64) -> Phase {
    // per size: every interior boundary x 16 pattern pairs, every outer edge x 4 patterns, and (round 25) the four
    // corner Ls of outermost data lines x 16 pattern pairs plus the complete frame x 4 patterns
    let per = |s: usize| -> u64 {
        let z = &SIZES[s];
        ((z.reg_rows - 1) + (z.reg_cols - 1)) as u64 * 16 + 16 + 4 * 16 + 4
    };
    let prefix = prefix_of(per);
    let total = prefix[N_SIZES];
    let make = move |ctx: &Ctx, i: u64| -> Trace {
        let (si, r) = locate(&prefix, i);
        let s = &SIZES[si];
        let nh = (s.reg_rows - 1) as u64;
        let nv = (s.reg_cols - 1) as u64;
        if r >= (nh + nv) * 16 + 16 {
            let q = r - ((nh + nv) * 16 + 16);
            let (hl, _) = crate::gen::data_lines(s, true);
            let (vl, _) = crate::gen::data_lines(s, false);
            let mixed: Vec<(bool, usize, u8)> = if q < 64 {
                let corner = q / 16;
                let pa = ((q % 16) / 4) as u8;
                let pb = (q % 4) as u8;
                let row = if corner / 2 == 0 { hl[0] } else { hl[hl.len() - 1] };
                let col = if corner % 2 == 0 { vl[0] } else { vl[vl.len() - 1] };
                vec![(true, row, pa), (false, col, pb)]
            } else {
                let p = (q - 64) as u8;
                vec![(true, hl[0], p), (true, hl[hl.len() - 1], p), (false, vl[0], p), (false, vl[vl.len() - 1], p)]
            };
            for variant in [0u64, 4, 8, 2, 1] {
                let data = seeded_data(seed, si, variant);
                let size = s.size;
                let d = data.clone();
                if let Ok(ec) = crate::exec::guard(move || datamatrix::errorcode::encode_error(&d, size)) {
                    let mut all = data.clone();
                    all.extend_from_slice(&ec);
                    let mut faults = Vec::new();
                    if crate::gen::mimic_lines_mixed(ctx, s, &all, &mixed, &mut faults) {
                        return Trace { prop: "C03".into(), producer: Producer::Raw { size: si, data }, faults };
                    }
                }
            }
            return Trace { prop: "C03".into(), producer: Producer::Raw { size: si, data: seeded_data(seed, si, 0) }, faults: vec![] };
        }
        let (horizontal, lines): (bool, Vec<(usize, u8)>) = if r < (nh + nv) * 16 {
            let b = r / 16;
            let pa = ((r % 16) / 4) as u8;
            let pb = (r % 4) as u8;
            let horizontal = b < nh;
            let g = if horizontal { b } else { b - nh } as usize;
            let (_, pairs) = crate::gen::data_lines(s, horizontal);
            (horizontal, vec![(pairs[g].0, pa), (pairs[g].1, pb)])
        } else {
            let q = r - (nh + nv) * 16;
            let edge = q / 4;
            let pat = (q % 4) as u8;
            let horizontal = edge < 2;
            let (lines, _) = crate::gen::data_lines(s, horizontal);
            let l = if edge % 2 == 0 { lines[0] } else { lines[lines.len() - 1] };
            (horizontal, vec![(l, pat)])
        };
        for variant in [0u64, 4, 8, 2, 1] {
            let data = seeded_data(seed, si, variant);
            let size = s.size;
            let d = data.clone();
            if let Ok(ec) = crate::exec::guard(move || datamatrix::errorcode::encode_error(&d, size)) {
                let mut all = data.clone();
                all.extend_from_slice(&ec);
                let mut faults = Vec::new();
                if crate::gen::mimic_line_faults(ctx, s, &all, horizontal, &lines, &mut faults) {
                    return Trace { prop: "C03".into(), producer: Producer::Raw { size: si, data }, faults };
                }
            }
        }
        Trace { prop: "C03".into(), producer: Producer::Raw { size: si, data: seeded_data(seed, si, 0) }, faults: vec![] }
    };
    Phase {
        source: Source::Sweep { name: "sweep_data_lines_imitating_fixed_pattern".into(), prop: "C03".into(), make: Box::new(make) },
        runs: total,
        wall_cap_s: 0,
    }
}

fn pad253(pos1: usize) -> u8 {
    let pr = ((149 * pos1) % 253) + 1;
    let t = 129 + pr;
    if t <= 254 { t as u8 } else { (t - 254) as u8 }
}

/// Padding structures carried by VALID symbols (correct error correction, correct fixed pattern) of every size,
/// through the whole pipeline: a prefix of 0..3 ordinary codewords followed by (0) the regular pad run - plain 129
/// then randomised pads, (1) randomised pads only, the first one included, (2) plain 129 throughout, (3) pads
/// randomised for the neighbouring position, (4) a regular pad run with one ordinary codeword after it,
/// (5) a regular pad run whose LAST codeword is a plain 129, (6) a latch as the last codeword before the pads,
/// (7) randomised pads from position 1 on, nothing else (no prefix is applied).
pub fn c05_pad_structures() -> Phase {
    const NV: u64 = 8;
    let per_size = 4 * NV;
    let total = N_SIZES as u64 * per_size;
    let make = move |_ctx: &Ctx, i: u64| -> Trace {
        let si = (i / per_size) as usize;
        let r = i % per_size;
        let variant = r % NV;
        let plen = (r / NV) as usize;
        let s = &SIZES[si];
        let n = s.n_data;
        let plen = if variant == 7 { 0 } else { plen.min(n.saturating_sub(1)) };
        let mut data: Vec<u8> = (0..plen).map(|j| b'A' + 1 + j as u8).collect();
        if variant == 6 && !data.is_empty() {
            let l = data.len() - 1;
            data[l] = 230;
        }
        let start = data.len();
        for p in start..n {
            let pos1 = p + 1;
            let v = match variant {
                0 | 6 => if p == start { 129 } else { pad253(pos1) },
                1 | 7 => pad253(pos1),
                2 => 129,
                3 => if p == start { 129 } else { pad253(pos1 + 1) },
                4 => if p == start { 129 } else if p == n - 1 { b'Z' + 1 } else { pad253(pos1) },
                _ => if p == start || p == n - 1 { 129 } else { pad253(pos1) },
            };
            data.push(v);
        }
        Trace { prop: "C05".into(), producer: Producer::Raw { size: si, data }, faults: vec![] }
    };
    Phase {
        source: Source::Sweep { name: "sweep_pad_structures_in_valid_symbols".into(), prop: "C05".into(), make: Box::new(make) },
        runs: total,
        wall_cap_s: 0,
    }
}

/// A valid rendering of every size embedded in a frame of 1, 2 or 3 modules (light / dark / alternating) - a
/// captured quiet zone or a crop taken too wide -, with the outer ring of the symbol cut away, and magnified (every
/// module drawn as 2x2, 3x3, 4x4 pixels).
pub fn framed_symbols(prop: &'static str, seed: u64) -> Phase {
    // anisotropic magnifications (pixels wide, pixels high), encoded for Op::GeoScale as kx + 16 * ky
    const STRETCH: [(u32, u32); 10] = [(2, 1), (1, 2), (3, 1), (1, 3), (4, 1), (1, 4), (2, 3), (3, 2), (2, 4), (4, 2)];
    // (round 25) the symbol TRANSLATED inside a crop of unchanged dimensions: 1 or 2 rows / columns of light or dark
    // margin on one side, as many cut off on the opposite side - two deviations that cancel in the dimension check
    const SHIFTS: u64 = 4 * 2 * 2;
    let per_size: u64 = 3 * 3 + 1 + 3 + STRETCH.len() as u64 + SHIFTS;
    let total = N_SIZES as u64 * per_size;
    let make = move |_ctx: &Ctx, i: u64| -> Trace {
        let si = (i / per_size) as usize;
        let r = i % per_size;
        let s = &SIZES[si];
        let mut faults = Vec::new();
        if r >= 13 + STRETCH.len() as u64 {
            let q = r - 13 - STRETCH.len() as u64;
            let side = (q / 4) as u32; // GeoMargin: 0 right, 1 left, 2 bottom, 3 top
            let n = (q % 2 + 1) as u32;
            let fill = ((q / 2) % 2) as u32;
            faults.push(Fault::new("geo_frame", Op::GeoMargin { side, n, fill }));
            for j in 0..n {
                match side {
                    0 => faults.push(Fault::new("geo_col_drop", Op::GeoColDrop { c: 0 })),
                    1 => faults.push(Fault::new("geo_col_drop", Op::GeoColDrop { c: s.cols as u32 + n - 1 - j })),
                    2 => faults.push(Fault::new("geo_row_drop", Op::GeoRowDrop { r: 0 })),
                    _ => faults.push(Fault::new("geo_row_drop", Op::GeoRowDrop { r: s.rows as u32 + n - 1 - j })),
                }
            }
        } else if r >= 13 {
            let (kx, ky) = STRETCH[(r - 13) as usize];
            faults.push(Fault::new("geo_frame", Op::GeoScale { k: kx + 16 * ky }));
        } else if r < 9 {
            faults.push(Fault::new("geo_frame", Op::GeoFrame { n: (r / 3 + 1) as u32, fill: (r % 3) as u32 }));
        } else if r >= 10 {
            // the symbol magnified: every module drawn as 2x2, 3x3, 4x4 pixels
            faults.push(Fault::new("geo_frame", Op::GeoScale { k: (r - 8) as u32 }));
        } else {
            // the outer ring cut away
            faults.push(Fault::new("geo_row_drop", Op::GeoRowDrop { r: (s.rows - 1) as u32 }));
            faults.push(Fault::new("geo_row_drop", Op::GeoRowDrop { r: 0 }));
            faults.push(Fault::new("geo_col_drop", Op::GeoColDrop { c: (s.cols - 1) as u32 }));
            faults.push(Fault::new("geo_col_drop", Op::GeoColDrop { c: 0 }));
        }
        Trace { prop: prop.into(), producer: Producer::Raw { size: si, data: seeded_data(seed, si, r) }, faults }
    };
    Phase {
        source: Source::Sweep { name: "sweep_framed_and_cropped_symbols".into(), prop: prop.into(), make: Box::new(make) },
        runs: total,
        wall_cap_s: 0,
    }
}

/// Every pair of fixed-pattern modules that are neighbours in the pixel array - horizontally, vertically, diagonally,
/// or consecutive in row-major order across the end of a row - flipped together, for every size: pairs that lie on
/// DIFFERENT tracks (the two columns of an interior alignment bar, a clock module and the solid module after it,
/// corners) as well as on one.
pub fn c08_adjacent_fixed_pairs(seed: u64) -> Phase {
    let mut table: Vec<(usize, u32, u32)> = Vec::new();
    for s in SIZES.iter() {
        let tpl = crate::catalogue::fixed_template(s);
        let (h, w) = (s.rows as i64, s.cols as i64);
        for r in 0..h {
            for c in 0..w {
                let a = (r * w + c) as usize;
                if tpl[a].is_none() {
                    continue;
                }
                // forward neighbours only (each unordered pair once)
                for (dr, dc) in [(0i64, 1i64), (1, -1), (1, 0), (1, 1)] {
                    let (rr, cc) = (r + dr, c + dc);
                    if rr < 0 || rr >= h || cc < 0 || cc >= w {
                        continue;
                    }
                    let b = (rr * w + cc) as usize;
                    if tpl[b].is_some() {
                        table.push((s.idx, a as u32, b as u32));
                    }
                }
                // row-major successor across the end of the row
                if c == w - 1 && r + 1 < h {
                    let b = ((r + 1) * w) as usize;
                    if tpl[b].is_some() {
                        table.push((s.idx, a as u32, b as u32));
                    }
                }
            }
        }
    }
    let total = table.len() as u64;
    let make = move |_ctx: &Ctx, i: u64| -> Trace {
        let (si, a, b) = table[i as usize];
        Trace {
            prop: "C08".into(),
            producer: Producer::Raw { size: si, data: seeded_data(seed, si, i % 3) },
            faults: vec![Fault::new("fix_pair", Op::PxFlip { idx: a }), Fault::new("fix_pair", Op::PxFlip { idx: b })],
        }
    };
    Phase {
        source: Source::Sweep { name: "sweep_adjacent_fixed_module_pairs".into(), prop: "C08".into(), make: Box::new(make) },
        runs: total,
        wall_cap_s: 0,
    }
}

/// Well-formed text in the Unicode encoding forms, then torn: boundary characters of every plane (and pairs of
/// them) encoded as UTF-8, UTF-16BE/LE, UTF-32BE/LE, CESU-8 (surrogate pairs as three-byte sequences), lone
/// surrogates, overlong forms and the obsolete five-byte form, delivered whole, cut one byte short and with one
/// byte damaged (each of the last four bytes in two ways), under the designators that name those forms (ECI 25, 26, 33, 34, 35) and under two that do not (3, 27).
pub fn c05_unicode_encodings() -> Phase {
    const CPS: [u32; 22] = [
        0x41, 0x7F, 0x80, 0xFF, 0x7FF, 0x800, 0xD7FF, 0xE000, 0xFEFF, 0xFFFD, 0xFFFE, 0xFFFF, 0x10000, 0x1F600, 0x1FFFF, 0x20000, 0x2FFFF,
        0x30000, 0xE0000, 0xFFFFF, 0x100000, 0x10FFFF,
    ];
    const ECIS: [u8; 8] = [25, 26, 33, 34, 35, 3, 27, 255]; // 255: no designator in front
    const NFORM: u64 = 9;
    const NVAR: u64 = 5 + 8 + 4;
    let n_cp = CPS.len() as u64;
    let total = n_cp * n_cp.min(6) * NFORM * ECIS.len() as u64 * NVAR;
    let make = move |_ctx: &Ctx, i: u64| -> Trace {
        let mut r = i;
        let var = r % NVAR;
        r /= NVAR;
        let eci = ECIS[(r % ECIS.len() as u64) as usize];
        r /= ECIS.len() as u64;
        let form = r % NFORM;
        r /= NFORM;
        let second = r % n_cp.min(6);
        r /= n_cp.min(6);
        let first = CPS[(r % n_cp) as usize];
        let mut cps = vec![first];
        if second > 0 {
            cps.push(CPS[((second * 4 + 1) % n_cp) as usize]);
        }
        let mut bytes: Vec<u8> = Vec::new();
        for cp in cps {
            let ch = char::from_u32(cp).unwrap_or('\u{fffd}');
            match form {
                0 => {
                    let mut b = [0u8; 4];
                    bytes.extend_from_slice(ch.encode_utf8(&mut b).as_bytes());
                }
                1 | 2 => {
                    let mut b = [0u16; 2];
                    for u in ch.encode_utf16(&mut b).iter() {
                        if form == 1 {
                            bytes.extend_from_slice(&u.to_be_bytes());
                        } else {
                            bytes.extend_from_slice(&u.to_le_bytes());
                        }
                    }
                }
                3 => bytes.extend_from_slice(&(ch as u32).to_be_bytes()),
                4 => bytes.extend_from_slice(&(ch as u32).to_le_bytes()),
                5 | 6 => {
                    // CESU-8 / WTF-8: UTF-16 code units written as three-byte sequences (astral characters as a
                    // surrogate pair of two three-byte sequences; form 6: the high half only - a lone surrogate)
                    let mut b = [0u16; 2];
                    let units = ch.encode_utf16(&mut b);
                    let n_units = if form == 6 { 1 } else { units.len() };
                    for u in units.iter().take(n_units) {
                        let u = *u as u32;
                        if u < 0x80 {
                            bytes.push(u as u8);
                        } else if u < 0x800 {
                            bytes.push(0xC0 | (u >> 6) as u8);
                            bytes.push(0x80 | (u & 0x3F) as u8);
                        } else {
                            bytes.push(0xE0 | (u >> 12) as u8);
                            bytes.push(0x80 | ((u >> 6) & 0x3F) as u8);
                            bytes.push(0x80 | (u & 0x3F) as u8);
                        }
                    }
                }
                7 => {
                    // overlong forms: the code point in one more byte than needed (4 bytes at most)
                    let c = ch as u32;
                    if c < 0x80 {
                        bytes.extend_from_slice(&[0xC0 | (c >> 6) as u8, 0x80 | (c & 0x3F) as u8]);
                    } else if c < 0x800 {
                        bytes.extend_from_slice(&[0xE0, 0x80 | (c >> 6) as u8, 0x80 | (c & 0x3F) as u8]);
                    } else {
                        bytes.extend_from_slice(&[0xF0 | ((c >> 18) & 7) as u8, 0x80 | ((c >> 12) & 0x3F) as u8, 0x80 | ((c >> 6) & 0x3F) as u8, 0x80 | (c & 0x3F) as u8]);
                    }
                }
                _ => {
                    // the obsolete five-byte form and code points past U+10FFFF
                    let c = (ch as u32) | 0x200000;
                    bytes.extend_from_slice(&[0xF8 | ((c >> 24) & 3) as u8, 0x80 | ((c >> 18) & 0x3F) as u8, 0x80 | ((c >> 12) & 0x3F) as u8, 0x80 | ((c >> 6) & 0x3F) as u8, 0x80 | (c & 0x3F) as u8]);
                }
            }
        }
        match var {
            1 => {
                bytes.pop();
            }
            2 => {
                let l = bytes.len();
                bytes[l / 2] ^= 0x80;
            }
            3 => {
                bytes.insert(0, 0xFE);
                bytes.insert(1, 0xFF);
            }
            4 => {
                bytes.remove(0);
            }
            5..=12 => {
                // one byte damaged, counted from the END of the text (the last byte, the one before, ...): a
                // continuation byte turned into a starter or an ASCII byte, a starter into a continuation byte
                let back = ((var - 5) / 2) as usize;
                if back < bytes.len() {
                    let l = bytes.len() - 1 - back;
                    bytes[l] = if (var - 5) % 2 == 0 { bytes[l] ^ 0x80 } else { 0x41 };
                }
            }
            _ => {}
        }
        let mut data: Vec<u8> = if eci == 255 { vec![] } else { vec![241, eci + 1] };
        // variants 13..16: a charset switch torn into the text after its 1st, 2nd, 3rd, 4th byte
        let tear_at = if var >= 13 { Some((var - 12) as usize) } else { None };
        for (bi, b) in bytes.iter().enumerate() {
            if tear_at == Some(bi) {
                data.extend_from_slice(&[241, 27]);
            }
            if *b < 128 {
                data.push(*b + 1);
            } else {
                data.push(235);
                data.push(*b - 127);
            }
        }
        Trace { prop: "C05".into(), producer: Producer::Stream { data }, faults: vec![] }
    };
    Phase {
        source: Source::Sweep { name: "sweep_unicode_encoding_forms_torn".into(), prop: "C05".into(), make: Box::new(make) },
        runs: total,
        wall_cap_s: 0,
    }
}

/// The renderer handed a codeword buffer with 1, 2, 8 or 300 surplus bytes behind the symbol's own codewords,
/// for every size and three contents: the rendering must not depend on what lies behind the symbol's data.
pub fn c08_surplus_codewords(seed: u64) -> Phase {
    const NS: [u32; 4] = [1, 2, 8, 300];
    let per = NS.len() as u64 * 3;
    let total = N_SIZES as u64 * per;
    let make = move |_ctx: &Ctx, i: u64| -> Trace {
        let si = (i / per) as usize;
        let r = i % per;
        let n = NS[(r % 4) as usize];
        let variant = r / 4;
        let s = &SIZES[si];
        let mut faults: Vec<Fault> = Vec::new();
        // arbitrary content, not only valid RS words
        let fill = seeded_data(seed ^ 0x5eed, si, variant);
        for p in 0..s.n_total() {
            let v = if variant == 2 { 0xFF } else { fill[p % fill.len().max(1)].wrapping_add(p as u8) };
            faults.push(Fault::new("cw_replace", Op::CwSet { pos: p as u32, val: v }));
        }
        faults.push(Fault::new("snd_surplus", Op::CwSurplus { n, val: 0xA5 }));
        Trace { prop: "C08".into(), producer: Producer::Raw { size: si, data: seeded_data(seed, si, variant) }, faults }
    };
    Phase {
        source: Source::Sweep { name: "sweep_surplus_codewords_behind_the_symbol".into(), prop: "C08".into(), make: Box::new(make) },
        runs: total,
        wall_cap_s: 0,
    }
}

/// One giant segment of a single encodation mode: a Base256 segment with length 0 ("rest of the symbol"), a C40, Text,
/// X12 and EDIFACT segment that is never unlatched, a run of digit pairs and a run of upper-shifted characters, each
/// of 14.5, 17 and 29.5 million codewords (149 x (offset within the segment) crossing 2^31 and 2^32; counters that
/// restart at a mode switch do not restart here).
pub fn c05_giant_segments() -> Phase {
    const LENS: [usize; 3] = [14_500_000, 17_000_000, 29_500_000];
    const NMODES: u64 = 7;
    let total = LENS.len() as u64 * NMODES;
    let make = move |_ctx: &Ctx, i: u64| -> Trace {
        let n = LENS[(i / NMODES) as usize];
        let mode = i % NMODES;
        let mut data: Vec<u8> = Vec::with_capacity(n + 4);
        match mode {
            0 => {
                data.push(231);
                data.push(44); // length 0 after un-randomising at position 2: the segment runs to the end
                data.resize(n, 0x5A);
            }
            1 | 2 | 3 => {
                data.push([230u8, 239, 238][(mode - 1) as usize]);
                // pairs encoding three ordinary values
                let pair = c40_triple(14, 15, 16);
                while data.len() + 2 <= n {
                    data.extend_from_slice(&pair);
                }
            }
            4 => {
                data.push(240);
                while data.len() + 3 <= n {
                    data.extend_from_slice(&[0x04, 0x20, 0xC4]); // four values, none of them the unlatch
                }
            }
            5 => data.resize(n, 142),
            _ => {
                while data.len() + 2 <= n {
                    data.extend_from_slice(&[235, 0x45]);
                }
            }
        }
        Trace { prop: "C05".into(), producer: Producer::Stream { data }, faults: vec![] }
    };
    Phase {
        source: Source::Sweep { name: "sweep_giant_single_mode_segments".into(), prop: "C05".into(), make: Box::new(make) },
        runs: total,
        wall_cap_s: 0,
    }
}

fn c40_triple(c1: u16, c2: u16, c3: u16) -> [u8; 2] {
    let v = 1600 * c1 + 40 * c2 + c3 + 1;
    [(v >> 8) as u8, (v & 0xFF) as u8]
}

/// Arrays of 2^32 + (a catalogue pixel count) light pixels, framed with that catalogue size's power-of-two width:
/// the pixel count aliases a valid symbol when it passes through a 32-bit integer. Built from zeroed pages.
pub fn huge_blank_arrays(prop: &'static str) -> Phase {
    let total = crate::trace::N_HUGE_BLANKS as u64;
    let make = move |_ctx: &Ctx, i: u64| -> Trace {
        Trace {
            prop: prop.into(),
            producer: Producer::Stream { data: vec![] },
            faults: vec![Fault::new("geo_replace", Op::GeoHugeBlank { code: i as u32 })],
        }
    };
    Phase {
        source: Source::Sweep { name: "sweep_pixel_counts_aliasing_modulo_2_pow_32".into(), prop: prop.into(), make: Box::new(make) },
        runs: total,
        wall_cap_s: 0,
    }
}

/// One-sided margins: a valid rendering of every size with 1..8 modules (and up to the next multiple of 8, 16 and 32)
/// of light or dark padding on ONE side - rows padded to a byte or word boundary, a crop that is off on one side.
pub fn margin_symbols(prop: &'static str, seed: u64) -> Phase {
    const NS: u64 = 11; // 1..=8, to a multiple of 8, of 16, of 32
    let per_size = 4 * NS * 2;
    let total = N_SIZES as u64 * per_size;
    let make = move |_ctx: &Ctx, i: u64| -> Trace {
        let si = (i / per_size) as usize;
        let r = i % per_size;
        let fill = (r % 2) as u32;
        let side = ((r / 2) % 4) as u32;
        let ni = r / 8;
        let s = &SIZES[si];
        let along = if side < 2 { s.cols } else { s.rows };
        let pad_to = |m: usize| -> usize { if along % m == 0 { m } else { m - along % m } };
        let n = match ni {
            0..=7 => ni as usize + 1,
            8 => pad_to(8),
            9 => pad_to(16),
            _ => pad_to(32),
        };
        Trace {
            prop: prop.into(),
            producer: Producer::Raw { size: si, data: seeded_data(seed, si, r) },
            faults: vec![Fault::new("geo_frame", Op::GeoMargin { side, n: n as u32, fill })],
        }
    };
    Phase {
        source: Source::Sweep { name: "sweep_one_sided_margins".into(), prop: prop.into(), make: Box::new(make) },
        runs: total,
        wall_cap_s: 0,
    }
}

/// One special byte in a run of printable ASCII: every control and high byte value (0x00-0x1F, 0x7F-0xFF) at every
/// position 0..40 of a 41-character run, with the default charset and under ECI 3 / 4 / 26 - word-at-a-time and
/// SIMD-style fast paths look at 8 or 16 bytes at once and must take every value at every lane.
pub fn c05_special_byte_in_ascii_run() -> Phase {
    const NPOS: u64 = 41;
    const NECI: u64 = 4;
    let specials: Vec<u8> = (0u16..=0x1F).chain(0x7F..=0xFF).map(|b| b as u8).collect();
    let nsp = specials.len() as u64;
    let total = nsp * NPOS * NECI;
    let make = move |_ctx: &Ctx, i: u64| -> Trace {
        let eci = [0u8, 4, 5, 27][(i % NECI) as usize];
        let r = i / NECI;
        let pos = (r % NPOS) as usize;
        let b = specials[(r / NPOS) as usize];
        let mut data: Vec<u8> = Vec::new();
        if eci != 0 {
            data.extend_from_slice(&[241, eci]);
        }
        for p in 0..NPOS as usize {
            if p == pos {
                if b < 128 {
                    data.push(b + 1);
                } else {
                    data.push(235);
                    data.push(b - 127);
                }
            } else {
                data.push(b'a' + (p % 26) as u8 + 1);
            }
        }
        Trace { prop: "C05".into(), producer: Producer::Stream { data }, faults: vec![] }
    };
    Phase {
        source: Source::Sweep { name: "sweep_special_byte_in_ascii_run".into(), prop: "C05".into(), make: Box::new(make) },
        runs: total,
        wall_cap_s: 0,
    }
}

/// Totals: in-radius damage whose TOTAL number of wrong codewords over all blocks is 127, 128, 129, 255, 256, 257
/// (where a narrow counter wraps), the maximum blocks x t, and one less - spread evenly over the blocks or packed
/// into the first ones, with seeded positions and values. Per-block families never aim at a sum.
pub fn c03_total_error_counts(seed: u64) -> Phase {
    const TARGETS: [usize; 6] = [127, 128, 129, 255, 256, 257];
    const PER: u64 = (6 + 2) * 2 * 3;
    let total = N_SIZES as u64 * PER;
    let make = move |_ctx: &Ctx, i: u64| -> Trace {
        let si = (i / PER) as usize;
        let r = i % PER;
        let s = &SIZES[si];
        let variant = r % 3;
        let packed = (r / 3) % 2 == 1;
        let ti = (r / 6) as usize;
        let cap = s.blocks * s.t();
        let target = match ti {
            0..=5 => TARGETS[ti],
            6 => cap,
            _ => cap.saturating_sub(1),
        };
        let mut faults = Vec::new();
        if target >= 1 && target <= cap {
            let mut w = vec![0usize; s.blocks];
            if packed {
                let mut left = target;
                for x in w.iter_mut() {
                    *x = left.min(s.t());
                    left -= *x;
                }
            } else {
                for (b, x) in w.iter_mut().enumerate() {
                    *x = target / s.blocks + usize::from(b < target % s.blocks);
                }
            }
            let mut rng = Rng::new(mix64(seed ^ mix64(i.wrapping_mul(0x9E3779B97F4A7C15))));
            for (b, wb) in w.iter().enumerate() {
                let pos = s.block_positions(b);
                for j in rng.sample_distinct(pos.len(), (*wb).min(pos.len())) {
                    faults.push(Fault::new("cw_subst", Op::CwXor { pos: pos[j] as u32, mask: rng.nonzero_byte() }));
                }
            }
        }
        Trace { prop: "C03".into(), producer: Producer::Raw { size: si, data: seeded_data(seed, si, variant) }, faults }
    };
    Phase {
        source: Source::Sweep { name: "sweep_total_error_counts_codeword_stage_only".into(), prop: "C03".into(), make: Box::new(make) },
        runs: total,
        wall_cap_s: 0,
    }
}

/// Base256 two-codeword length fields written RAW: every first byte 250..=255 with second bytes 0, 1, 249 and the
/// NON-canonical 250..=255 (the standard keeps the second byte below 250; a decoder meets whatever is there), with
/// exactly the announced payload present, one codeword more, one less, and a long surplus.
pub fn c05_base256_raw_length_pairs() -> Phase {
    const D2: [u8; 9] = [0, 1, 249, 250, 251, 252, 253, 254, 255];
    let total = 6 * D2.len() as u64 * 4 * 2;
    let make = move |_ctx: &Ctx, i: u64| -> Trace {
        let prefix = if i % 2 == 0 { 0usize } else { 2 };
        let r = i / 2;
        let present = r % 4;
        let d2 = D2[((r / 4) % D2.len() as u64) as usize];
        let d1 = 250 + (r / 4 / D2.len() as u64) as u8;
        let announced = 250 * (d1 as usize - 249) + d2 as usize;
        let payload = match present {
            0 => announced,
            1 => announced + 1,
            2 => announced.saturating_sub(1),
            _ => announced + 300,
        };
        let mut out: Vec<u8> = vec![66; prefix];
        out.push(231);
        let p = out.len() + 1;
        out.push(rand255(d1, p));
        let p = out.len() + 1;
        out.push(rand255(d2, p));
        for j in 0..payload {
            let p = out.len() + 1;
            out.push(rand255((j as u8).wrapping_mul(37).wrapping_add(0x80), p));
        }
        Trace { prop: "C05".into(), producer: Producer::Stream { data: out }, faults: vec![] }
    };
    Phase {
        source: Source::Sweep { name: "sweep_base256_raw_two_byte_lengths".into(), prop: "C05".into(), make: Box::new(make) },
        runs: total,
        wall_cap_s: 0,
    }
}

/// Two fixed modules of one line flipped together, a machine-word distance apart (8, 16, 32, 64, 128 modules), for every
/// fixed row and column of every size; and the two fixed modules at opposite ends of the same pixel row (left bar and
/// right timing module) or the same pixel column (top clock and bottom bar module) of every region.
pub fn c08_far_fixed_pairs(seed: u64) -> Phase {
    let mut table: Vec<(usize, u32, u32)> = Vec::new();
    for s in SIZES.iter() {
        let tpl = crate::catalogue::fixed_template(s);
        let (h, w) = (s.rows, s.cols);
        let rh = h / s.reg_rows;
        let rw = w / s.reg_cols;
        for d in [8usize, 16, 32, 64, 128] {
            for r in 0..h {
                if r % rh != 0 && r % rh != rh - 1 {
                    continue;
                }
                for c in 0..w.saturating_sub(d) {
                    let (a, b) = (r * w + c, r * w + c + d);
                    if tpl[a].is_some() && tpl[b].is_some() {
                        table.push((s.idx, a as u32, b as u32));
                    }
                }
            }
            for c in 0..w {
                if c % rw != 0 && c % rw != rw - 1 {
                    continue;
                }
                for r in 0..h.saturating_sub(d) {
                    let (a, b) = (r * w + c, (r + d) * w + c);
                    if tpl[a].is_some() && tpl[b].is_some() {
                        table.push((s.idx, a as u32, b as u32));
                    }
                }
            }
        }
        for rr in 0..s.reg_rows {
            for rc in 0..s.reg_cols {
                let (r0, c0) = (rr * rh, rc * rw);
                for r in 0..rh {
                    table.push((s.idx, ((r0 + r) * w + c0) as u32, ((r0 + r) * w + c0 + rw - 1) as u32));
                }
                for c in 0..rw {
                    table.push((s.idx, (r0 * w + c0 + c) as u32, ((r0 + rh - 1) * w + c0 + c) as u32));
                }
            }
        }
    }
    let total = table.len() as u64;
    let make = move |_ctx: &Ctx, i: u64| -> Trace {
        let (si, a, b) = table[i as usize];
        Trace {
            prop: "C08".into(),
            producer: Producer::Raw { size: si, data: seeded_data(seed, si, i % 3) },
            faults: vec![Fault::new("fix_pair", Op::PxFlip { idx: a }), Fault::new("fix_pair", Op::PxFlip { idx: b })],
        }
    };
    Phase {
        source: Source::Sweep { name: "sweep_far_fixed_module_pairs".into(), prop: "C08".into(), make: Box::new(make) },
        runs: total,
        wall_cap_s: 0,
    }
}

/// Long runs under a charset: k one-byte characters (k = 0..7) followed by 1500 / 3000 / 6000 high bytes of one value
/// (and of two alternating values), under every charset the string path knows and two it does not. Block buffers
/// and chunked conversions meet every residue of their boundary with characters of different encoded widths.
pub fn c05_long_charset_runs() -> Phase {
    const ECIS: [u8; 10] = [0, 4, 5, 8, 10, 12, 14, 16, 27, 28]; // none, then designator codewords (ECI + 1)
    const BYTES: [u8; 5] = [0xA1, 0xE0, 0xFF, 0x80, 0xD0];
    const LENS: [usize; 3] = [1500, 3000, 6000];
    let total = (ECIS.len() * 8 * BYTES.len() * LENS.len() * 2) as u64;
    let make = move |_ctx: &Ctx, i: u64| -> Trace {
        let mut r = i as usize;
        let alt = r % 2 == 1;
        r /= 2;
        let len = LENS[r % LENS.len()];
        r /= LENS.len();
        let b = BYTES[r % BYTES.len()];
        r /= BYTES.len();
        let k = r % 8;
        r /= 8;
        let eci = ECIS[r % ECIS.len()];
        let mut data: Vec<u8> = Vec::new();
        if eci != 0 {
            data.extend_from_slice(&[241, eci]);
        }
        for j in 0..k {
            data.push(b'a' + j as u8 + 1);
        }
        for j in 0..len {
            let v = if alt && j % 2 == 1 { b ^ 0x1F } else { b };
            if v < 128 {
                data.push(v + 1);
            } else {
                data.push(235);
                data.push(v - 127);
            }
        }
        Trace { prop: "C05".into(), producer: Producer::Stream { data }, faults: vec![] }
    };
    Phase {
        source: Source::Sweep { name: "sweep_long_runs_under_a_charset".into(), prop: "C05".into(), make: Box::new(make) },
        runs: total,
        wall_cap_s: 0,
    }
}

/// Exactly T wrong fixed modules, T = 127, 128, 129, 255, 256, 257 (where a narrow counter wraps): the first T fixed
/// modules - in row-major order - of (a) the whole symbol, (b) each region row's two horizontal lines, (c) each region
/// column's two vertical lines, (d) a single line; for every size in which the scope holds that many.
pub fn c08_wrong_module_totals(seed: u64) -> Phase {
    const TARGETS: [usize; 6] = [127, 128, 129, 255, 256, 257];
    let mut table: Vec<(usize, Vec<u32>)> = Vec::new();
    for s in SIZES.iter() {
        let tpl = crate::catalogue::fixed_template(s);
        let (h, w) = (s.rows, s.cols);
        let rh = h / s.reg_rows;
        let rw = w / s.reg_cols;
        let mut scopes: Vec<Vec<u32>> = Vec::new();
        scopes.push((0..h * w).filter(|i| tpl[*i].is_some()).map(|i| i as u32).collect());
        for rr in 0..s.reg_rows {
            let (top, bot) = (rr * rh, (rr + 1) * rh - 1);
            // clock row first (then the solid row), and the other way round
            scopes.push((0..w).map(|c| (top * w + c) as u32).chain((0..w).map(|c| (bot * w + c) as u32)).collect());
            scopes.push((0..w).map(|c| (bot * w + c) as u32).chain((0..w).map(|c| (top * w + c) as u32)).collect());
            scopes.push((0..w).map(|c| (top * w + c) as u32).collect());
            scopes.push((0..w).map(|c| (bot * w + c) as u32).collect());
        }
        for rc in 0..s.reg_cols {
            let (l, r) = (rc * rw, (rc + 1) * rw - 1);
            scopes.push((0..h).map(|y| (y * w + r) as u32).chain((0..h).map(|y| (y * w + l) as u32)).collect());
            scopes.push((0..h).map(|y| (y * w + l) as u32).chain((0..h).map(|y| (y * w + r) as u32)).collect());
        }
        for sc in scopes {
            for t in TARGETS {
                if sc.len() >= t {
                    table.push((s.idx, sc[..t].to_vec()));
                }
            }
        }
    }
    let total = table.len() as u64;
    let make = move |_ctx: &Ctx, i: u64| -> Trace {
        let (si, px) = &table[i as usize];
        Trace {
            prop: "C08".into(),
            producer: Producer::Raw { size: *si, data: seeded_data(seed, *si, i % 3) },
            faults: px.iter().map(|p| Fault::new("fix_track", Op::PxFlip { idx: *p })).collect(),
        }
    };
    Phase {
        source: Source::Sweep { name: "sweep_totals_of_wrong_fixed_modules".into(), prop: "C08".into(), make: Box::new(make) },
        runs: total,
        wall_cap_s: 0,
    }
}

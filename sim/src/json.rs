//! Minimal JSON value, writer and parser (no dependencies).

use std::fmt::Write;

#[derive(Clone, Debug, PartialEq)]
pub enum J {
    Null,
    Bool(bool),
    Int(i64),
    Num(f64),
    Str(String),
    Arr(Vec<J>),
    Obj(Vec<(String, J)>),
}

impl J {
    pub fn obj() -> J {
        J::Obj(Vec::new())
    }
    pub fn s(x: &str) -> J {
        J::Str(x.to_string())
    }
    pub fn i(x: usize) -> J {
        J::Int(x as i64)
    }
    pub fn set(&mut self, k: &str, v: J) -> &mut Self {
        if let J::Obj(o) = self {
            if let Some(e) = o.iter_mut().find(|(kk, _)| kk == k) {
                e.1 = v;
            } else {
                o.push((k.to_string(), v));
            }
        }
        self
    }
    pub fn with(mut self, k: &str, v: J) -> Self {
        self.set(k, v);
        self
    }
    pub fn get(&self, k: &str) -> Option<&J> {
        if let J::Obj(o) = self {
            o.iter().find(|(kk, _)| kk == k).map(|(_, v)| v)
        } else {
            None
        }
    }
    pub fn as_i64(&self) -> Option<i64> {
        match self {
            J::Int(i) => Some(*i),
            J::Num(f) => Some(*f as i64),
            _ => None,
        }
    }
    pub fn as_u64(&self) -> Option<u64> {
        self.as_i64().map(|x| x as u64)
    }
    pub fn as_f64(&self) -> Option<f64> {
        match self {
            J::Int(i) => Some(*i as f64),
            J::Num(f) => Some(*f),
            _ => None,
        }
    }
    pub fn as_str(&self) -> Option<&str> {
        if let J::Str(s) = self {
            Some(s)
        } else {
            None
        }
    }
    pub fn as_bool(&self) -> Option<bool> {
        if let J::Bool(b) = self {
            Some(*b)
        } else {
            None
        }
    }
    pub fn as_arr(&self) -> Option<&Vec<J>> {
        if let J::Arr(a) = self {
            Some(a)
        } else {
            None
        }
    }
    pub fn as_obj(&self) -> Option<&Vec<(String, J)>> {
        if let J::Obj(a) = self {
            Some(a)
        } else {
            None
        }
    }

    pub fn to_string_pretty(&self) -> String {
        let mut s = String::new();
        self.write(&mut s, 0, true);
        s.push('\n');
        s
    }
    pub fn to_string_compact(&self) -> String {
        let mut s = String::new();
        self.write(&mut s, 0, false);
        s
    }

    fn is_scalar(&self) -> bool {
        !matches!(self, J::Arr(_) | J::Obj(_))
    }

    fn write(&self, out: &mut String, ind: usize, pretty: bool) {
        match self {
            J::Null => out.push_str("null"),
            J::Bool(b) => out.push_str(if *b { "true" } else { "false" }),
            J::Int(i) => {
                let _ = write!(out, "{}", i);
            }
            J::Num(f) => {
                if f.is_finite() {
                    let s = format!("{}", f);
                    out.push_str(&s);
                    if !s.contains('.') && !s.contains('e') {
                        out.push_str(".0");
                    }
                } else {
                    out.push_str("null");
                }
            }
            J::Str(s) => write_str(out, s),
            J::Arr(a) => {
                if a.is_empty() {
                    out.push_str("[]");
                    return;
                }
                // arrays of scalars on one line, even in pretty mode
                let flat = !pretty || a.iter().all(|x| x.is_scalar());
                out.push('[');
                for (i, x) in a.iter().enumerate() {
                    if i > 0 {
                        out.push(',');
                        if flat && pretty {
                            out.push(' ');
                        }
                    }
                    if !flat {
                        out.push('\n');
                        push_ind(out, ind + 1);
                    }
                    x.write(out, ind + 1, pretty);
                }
                if !flat {
                    out.push('\n');
                    push_ind(out, ind);
                }
                out.push(']');
            }
            J::Obj(o) => {
                if o.is_empty() {
                    out.push_str("{}");
                    return;
                }
                out.push('{');
                for (i, (k, v)) in o.iter().enumerate() {
                    if i > 0 {
                        out.push(',');
                    }
                    if pretty {
                        out.push('\n');
                        push_ind(out, ind + 1);
                    }
                    write_str(out, k);
                    out.push(':');
                    if pretty {
                        out.push(' ');
                    }
                    v.write(out, ind + 1, pretty);
                }
                if pretty {
                    out.push('\n');
                    push_ind(out, ind);
                }
                out.push('}');
            }
        }
    }
}

fn push_ind(out: &mut String, n: usize) {
    for _ in 0..n {
        out.push(' ');
    }
}

fn write_str(out: &mut String, s: &str) {
    out.push('"');
    for c in s.chars() {
        match c {
            '"' => out.push_str("\\\""),
            '\\' => out.push_str("\\\\"),
            '\n' => out.push_str("\\n"),
            '\r' => out.push_str("\\r"),
            '\t' => out.push_str("\\t"),
            c if (c as u32) < 0x20 => {
                let _ = write!(out, "\\u{:04x}", c as u32);
            }
            c => out.push(c),
        }
    }
    out.push('"');
}

pub fn parse(text: &str) -> Result<J, String> {
    let b = text.as_bytes();
    let mut p = 0usize;
    let v = parse_val(b, &mut p)?;
    skip_ws(b, &mut p);
    if p != b.len() {
        return Err(format!("trailing data at {}", p));
    }
    Ok(v)
}

fn skip_ws(b: &[u8], p: &mut usize) {
    while *p < b.len() && matches!(b[*p], b' ' | b'\n' | b'\r' | b'\t') {
        *p += 1;
    }
}

fn parse_val(b: &[u8], p: &mut usize) -> Result<J, String> {
    skip_ws(b, p);
    if *p >= b.len() {
        return Err("unexpected end".into());
    }
    match b[*p] {
        b'n' => lit(b, p, "null", J::Null),
        b't' => lit(b, p, "true", J::Bool(true)),
        b'f' => lit(b, p, "false", J::Bool(false)),
        b'"' => Ok(J::Str(parse_str(b, p)?)),
        b'[' => {
            *p += 1;
            let mut a = Vec::new();
            skip_ws(b, p);
            if *p < b.len() && b[*p] == b']' {
                *p += 1;
                return Ok(J::Arr(a));
            }
            loop {
                a.push(parse_val(b, p)?);
                skip_ws(b, p);
                if *p >= b.len() {
                    return Err("unterminated array".into());
                }
                match b[*p] {
                    b',' => *p += 1,
                    b']' => {
                        *p += 1;
                        return Ok(J::Arr(a));
                    }
                    _ => return Err(format!("bad array at {}", p)),
                }
            }
        }
        b'{' => {
            *p += 1;
            let mut o = Vec::new();
            skip_ws(b, p);
            if *p < b.len() && b[*p] == b'}' {
                *p += 1;
                return Ok(J::Obj(o));
            }
            loop {
                skip_ws(b, p);
                let k = parse_str(b, p)?;
                skip_ws(b, p);
                if *p >= b.len() || b[*p] != b':' {
                    return Err(format!("expected ':' at {}", p));
                }
                *p += 1;
                let v = parse_val(b, p)?;
                o.push((k, v));
                skip_ws(b, p);
                if *p >= b.len() {
                    return Err("unterminated object".into());
                }
                match b[*p] {
                    b',' => *p += 1,
                    b'}' => {
                        *p += 1;
                        return Ok(J::Obj(o));
                    }
                    _ => return Err(format!("bad object at {}", p)),
                }
            }
        }
        _ => {
            let start = *p;
            let mut is_float = false;
            while *p < b.len()
                && (b[*p].is_ascii_digit() || matches!(b[*p], b'-' | b'+' | b'.' | b'e' | b'E'))
            {
                if matches!(b[*p], b'.' | b'e' | b'E') {
                    is_float = true;
                }
                *p += 1;
            }
            let s = std::str::from_utf8(&b[start..*p]).map_err(|e| e.to_string())?;
            if s.is_empty() {
                return Err(format!("unexpected byte at {}", start));
            }
            if is_float {
                s.parse::<f64>().map(J::Num).map_err(|e| e.to_string())
            } else {
                match s.parse::<i64>() {
                    Ok(i) => Ok(J::Int(i)),
                    Err(_) => s.parse::<f64>().map(J::Num).map_err(|e| e.to_string()),
                }
            }
        }
    }
}

fn lit(b: &[u8], p: &mut usize, word: &str, v: J) -> Result<J, String> {
    if b[*p..].starts_with(word.as_bytes()) {
        *p += word.len();
        Ok(v)
    } else {
        Err(format!("bad literal at {}", p))
    }
}

fn parse_str(b: &[u8], p: &mut usize) -> Result<String, String> {
    if *p >= b.len() || b[*p] != b'"' {
        return Err(format!("expected string at {}", p));
    }
    *p += 1;
    let mut out: Vec<u8> = Vec::new();
    while *p < b.len() {
        match b[*p] {
            b'"' => {
                *p += 1;
                return String::from_utf8(out).map_err(|e| e.to_string());
            }
            b'\\' => {
                *p += 1;
                if *p >= b.len() {
                    break;
                }
                match b[*p] {
                    b'n' => out.push(b'\n'),
                    b'r' => out.push(b'\r'),
                    b't' => out.push(b'\t'),
                    b'b' => out.push(8),
                    b'f' => out.push(12),
                    b'u' => {
                        if *p + 4 >= b.len() {
                            return Err("bad \\u".into());
                        }
                        let h = std::str::from_utf8(&b[*p + 1..*p + 5]).map_err(|e| e.to_string())?;
                        let cp = u32::from_str_radix(h, 16).map_err(|e| e.to_string())?;
                        let c = char::from_u32(cp).unwrap_or('\u{fffd}');
                        let mut buf = [0u8; 4];
                        out.extend_from_slice(c.encode_utf8(&mut buf).as_bytes());
                        *p += 4;
                    }
                    c => out.push(c),
                }
                *p += 1;
            }
            c => {
                out.push(c);
                *p += 1;
            }
        }
    }
    Err("unterminated string".into())
}

pub fn hex(bytes: &[u8]) -> String {
    let mut s = String::with_capacity(bytes.len() * 2);
    for b in bytes {
        let _ = write!(s, "{:02x}", b);
    }
    s
}

pub fn unhex(s: &str) -> Result<Vec<u8>, String> {
    if s.len() % 2 != 0 {
        return Err("odd hex length".into());
    }
    (0..s.len() / 2)
        .map(|i| u8::from_str_radix(&s[2 * i..2 * i + 2], 16).map_err(|e| e.to_string()))
        .collect()
}

/// bools as a string of '0'/'1'
pub fn bits_str(bits: &[bool]) -> String {
    bits.iter().map(|b| if *b { '1' } else { '0' }).collect()
}

pub fn unbits(s: &str) -> Vec<bool> {
    s.bytes().map(|c| c == b'1').collect()
}

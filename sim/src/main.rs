//! dmsim - deterministic transmission simulator with fault injection for datamatrix-rs.
//! See /verif/DESIGN.md.

mod catalogue;
mod exec;
mod gen;
mod gf;
mod json;
mod rng;
mod runner;
mod sweeps;
mod trace;

use std::collections::BTreeMap;
use std::sync::Arc;
use std::time::Instant;

use catalogue::{N_SIZES, SIZES};
use exec::{execute, Ctx, PROBE_NAMES};
use json::J;
use runner::{minimise, run_phases, FoundViolation, Phase, RunCfg, Source, Stats};
use trace::{Trace, KINDS};

pub const DEFAULT_SEED: u64 = 20261003;

#[cfg(feature = "lowopt")]
pub const PROFILE: &str = "lowopt";
#[cfg(all(debug_assertions, not(feature = "lowopt")))]
pub const PROFILE: &str = "checked";
#[cfg(not(debug_assertions))]
pub const PROFILE: &str = "release";

fn usage() -> ! {
    eprintln!(
        "usage:
  dmsim run --prop <C03|C05|C08|C09> --tier <quick|thorough> [--seed N] [--runs N] [--workers N]
            [--partial <out.json>] [--log <file>] [--replay-dir <dir>] [--known <file>] [--scale F]
  dmsim merge --prop <id> --tier <tier> --out <evidence.json> <partial.json>...
  dmsim replay <file>
  dmsim determinism [--seeds N] [--runs N]
  dmsim selftest"
    );
    std::process::exit(2)
}

struct Args {
    pos: Vec<String>,
    opts: BTreeMap<String, String>,
}

fn parse_args(args: &[String]) -> Args {
    let mut pos = Vec::new();
    let mut opts = BTreeMap::new();
    let mut i = 0;
    while i < args.len() {
        if let Some(k) = args[i].strip_prefix("--") {
            if i + 1 < args.len() {
                opts.insert(k.to_string(), args[i + 1].clone());
                i += 2;
            } else {
                opts.insert(k.to_string(), String::new());
                i += 1;
            }
        } else {
            pos.push(args[i].clone());
            i += 1;
        }
    }
    Args { pos, opts }
}

fn main() {
    let argv: Vec<String> = std::env::args().collect();
    if argv.len() < 2 {
        usage();
    }
    exec::install_panic_hook();
    let a = parse_args(&argv[2..]);
    let code = match argv[1].as_str() {
        "run" => cmd_run(&a),
        "merge" => cmd_merge(&a),
        "replay" => cmd_replay(&a),
        "exec-one" => cmd_exec_one(&a),
        "crash-report" => cmd_crash_report(&a),
        "determinism" => cmd_determinism(&a),
        "selftest" => cmd_selftest(),
        "show" => cmd_show(&a),
        _ => usage(),
    };
    std::process::exit(code);
}

// ---------------- known findings ----------------

pub struct KnownFinding {
    pub property: String,
    pub class: String,
    pub sizes: Vec<String>,
    pub what: String,
}

fn load_known(path: &str) -> Result<Vec<KnownFinding>, String> {
    let text = match std::fs::read_to_string(path) {
        Ok(t) => t,
        Err(_) => return Ok(vec![]),
    };
    let j = json::parse(&text)?;
    let mut out = Vec::new();
    for f in j.get("findings").and_then(|x| x.as_arr()).cloned().unwrap_or_default() {
        if f.get("status").and_then(|x| x.as_str()) != Some("open") {
            continue; // "fixed" entries suppress nothing
        }
        let m = f.get("match").cloned().unwrap_or(J::obj());
        out.push(KnownFinding {
            property: f.get("property").and_then(|x| x.as_str()).unwrap_or("").to_string(),
            class: m.get("class").and_then(|x| x.as_str()).unwrap_or("").to_string(),
            sizes: m
                .get("sizes")
                .and_then(|x| x.as_arr())
                .map(|a| a.iter().filter_map(|x| x.as_str().map(|s| s.to_string())).collect())
                .unwrap_or_default(),
            what: f.get("what").and_then(|x| x.as_str()).unwrap_or("").to_string(),
        });
    }
    Ok(out)
}

fn known_match<'a>(known: &'a [KnownFinding], prop: &str, class: &str, size: Option<usize>) -> Option<&'a KnownFinding> {
    known.iter().find(|k| {
        k.property == prop
            && k.class == class
            && (k.sizes.is_empty() || size.map(|s| k.sizes.iter().any(|n| n == SIZES[s].name)).unwrap_or(false))
    })
}

// ---------------- budgets ----------------

struct Budget {
    random_runs: u64,
    sweeps: Vec<Phase>,
    wall_cap_s: u64,
}

fn budget(prop: &str, tier: &str, seed: u64, scale: f64) -> Budget {
    let checked = PROFILE == "checked";
    let quick = tier == "quick";
    let r = |q_checked: u64, q_release: u64, t_checked: u64, t_release: u64| -> u64 {
        let base = match (quick, checked) {
            (true, true) => q_checked,
            (true, false) => q_release,
            (false, true) => t_checked,
            (false, false) => t_release,
        };
        ((base as f64) * scale) as u64
    };
    let mut sweeps = Vec::new();
    let random_runs;
    match prop {
        "C03" => {
            random_runs = r(400_000, 150_000, 18_000_000, 9_000_000);
            // both build profiles run the enumerations (C03 is stated for the decoder, not for one build of it: a path
            // that exists only without debug assertions must meet every position too); the big ones only on the checked build
            let small = quick || !checked;
            sweeps.push(sweeps::c03_single_codeword(seed, if small { 6 } else { 255 }));
            sweeps.push(sweeps::c03_single_data_pixel(seed));
            sweeps.push(sweeps::c03_impostor_messages());
            sweeps.push(sweeps::c03_mimic_boundaries(seed));
            sweeps.push(sweeps::c03_total_error_counts(seed));
            sweeps.push(sweeps::c03_edge_pairs(seed, if small { 10 } else { 255 }));
            if !quick && checked {
                sweeps.push(sweeps::c03_sq10_weight2(seed));
                sweeps.push(sweeps::c03_k7_full_capacity(seed));
            }
        }
        "C09" => {
            random_runs = r(800_000, 300_000, 24_000_000, 12_000_000);
            if checked && !quick {
                sweeps.push(sweeps::c09_sq10_weight3(seed));
                sweeps.push(sweeps::c09_k7_weight4(seed));
            }
        }
        "C05" => {
            random_runs = r(500_000, 300_000, 18_000_000, 18_000_000);
            sweeps.push(sweeps::c05_short_streams(!quick, !quick && checked));
            sweeps.push(sweeps::c05_base256_lengths(seed, if quick { 600 } else { 1600 }));
            sweeps.push(sweeps::c05_base256_raw_length_pairs());
            sweeps.push(sweeps::c05_eci_charset_bytes());
            sweeps.push(sweeps::c05_eci_two_byte_designators(true));
            sweeps.push(sweeps::c05_eci_three_byte_designators(true));
            sweeps.push(sweeps::c05_long_streams());
            sweeps.push(sweeps::c05_c40_value_sequences());
            sweeps.push(sweeps::c05_c40_then_tail());
            sweeps.push(sweeps::c05_charset_sections());
            sweeps.push(sweeps::c05_repeated_atoms());
            sweeps.push(sweeps::c05_pad_structures());
            sweeps.push(sweeps::structured_data_fills("C05"));
            if checked || !quick {
                sweeps.push(sweeps::c05_huge_positions());
                sweeps.push(sweeps::c05_giant_segments());
            }
            // all enumerations on both build profiles (C05 is stated for both)
            sweeps.push(sweeps::c05_string_path_streams());
            sweeps.push(sweeps::small_geometry("C05", if quick { 200 } else if checked { 1300 } else { 600 }, if quick { 40 } else { 150 }));
            sweeps.push(sweeps::dimension_aliases("C05", seed));
            sweeps.push(sweeps::extreme_widths("C05"));
            sweeps.push(sweeps::framed_symbols("C05", seed));
            sweeps.push(sweeps::huge_blank_arrays("C05"));
            sweeps.push(sweeps::margin_symbols("C05", seed));
            sweeps.push(sweeps::c05_special_byte_in_ascii_run());
            sweeps.push(sweeps::c05_long_charset_runs());
            sweeps.push(sweeps::c05_unicode_encodings());
        }
        "C08" => {
            random_runs = r(250_000, 80_000, 12_000_000, 3_000_000);
            // the release build repeats the enumerations once (wrapping arithmetic could change what is accepted)
            sweeps.push(sweeps::c08_single_pixel(seed, if quick || !checked { 1 } else { 16 }));
            sweeps.push(sweeps::small_geometry("C08", if quick { 330 } else if checked { 1300 } else { 600 }, if quick { 40 } else { 150 }));
            sweeps.push(sweeps::c08_track_faults(seed));
            sweeps.push(sweeps::c08_periodic_fixed_faults(seed));
            sweeps.push(sweeps::c08_track_combinations(seed));
            sweeps.push(sweeps::c08_small_structure_subsets(seed));
            sweeps.push(sweeps::structured_data_fills("C08"));
            sweeps.push(sweeps::dimension_aliases("C08", seed));
            sweeps.push(sweeps::extreme_widths("C08"));
            sweeps.push(sweeps::framed_symbols("C08", seed));
            sweeps.push(sweeps::huge_blank_arrays("C08"));
            sweeps.push(sweeps::margin_symbols("C08", seed));
            sweeps.push(sweeps::c08_adjacent_fixed_pairs(seed));
            sweeps.push(sweeps::c08_far_fixed_pairs(seed));
            sweeps.push(sweeps::c08_wrong_module_totals(seed));
            sweeps.push(sweeps::c08_surplus_codewords(seed));
        }
        _ => {
            eprintln!("unknown property {}", prop);
            std::process::exit(2);
        }
    }
    Budget { random_runs, sweeps, wall_cap_s: if quick { 240 } else { 3 * 3600 } }
}

/// The phases of a run, as a function of the command line (the crash report rebuilds exactly the same list).
fn build_phases(a: &Args, prop: &str, tier: &str, seed: u64, scale: f64) -> Vec<Phase> {
    let mut b = budget(prop, tier, seed, scale);
    if let Some(n) = a.opts.get("runs").and_then(|s| s.parse::<u64>().ok()) {
        b.random_runs = n;
    }
    if a.opts.contains_key("no-sweeps") {
        b.sweeps.clear();
    }
    let mut phases: Vec<Phase> = Vec::new();
    for mut s in b.sweeps {
        s.wall_cap_s = b.wall_cap_s;
        phases.push(s);
    }
    phases.push(Phase { source: Source::Random { prop: prop.to_string(), seed }, runs: b.random_runs, wall_cap_s: b.wall_cap_s });
    if let Some(only) = a.opts.get("only-phase") {
        phases.retain(|p| p.source.name().contains(only.as_str()));
    }
    phases
}

// ---------------- process aborts ----------------

/// `dmsim exec-one <trace.json>`: execute one trace and return. Used as a CHILD process: a stack overflow, an
/// allocation failure or a double panic kills the child, not the simulator.
fn cmd_exec_one(a: &Args) -> i32 {
    let path = match a.pos.first() {
        Some(p) => p.clone(),
        None => usage(),
    };
    let t = match std::fs::read_to_string(&path).map_err(|e| e.to_string()).and_then(|t| json::parse(&t)).and_then(|j| Trace::from_json(&j)) {
        Ok(t) => t,
        Err(e) => {
            eprintln!("harness error: cannot read trace {}: {}", path, e);
            return 2;
        }
    };
    // on a thread like the simulator's workers (default stack size), not on the roomier main thread
    let h = std::thread::spawn(move || {
        let ctx = Ctx::new();
        let o = execute(&ctx, &t, &runner::exec_opts_for(&t.prop));
        o.violations.len()
    });
    match h.join() {
        Ok(n) => {
            println!("exec-one: returned ({} violation(s))", n);
            0
        }
        Err(_) => 3,
    }
}

/// Run `exec-one` on a trace in a child process; Some(description) if the child was killed by a signal.
fn child_dies(t: &Trace, dir: &str, tag: &str) -> Option<String> {
    let _ = std::fs::create_dir_all(dir);
    let f = format!("{}/exec-one-{}-{}.json", dir, std::process::id(), tag);
    if std::fs::write(&f, t.to_json().to_string_pretty()).is_err() {
        return None;
    }
    let exe = std::env::current_exe().ok()?;
    let st = std::process::Command::new(exe).arg("exec-one").arg(&f).stdout(std::process::Stdio::null()).stderr(std::process::Stdio::null()).status().ok()?;
    let _ = std::fs::remove_file(&f);
    use std::os::unix::process::ExitStatusExt;
    match (st.signal(), st.code()) {
        (Some(sig), _) => Some(format!("signal {}", sig)),
        (None, Some(c)) if c >= 128 => Some(format!("exit status {}", c)),
        _ => None,
    }
}

/// `dmsim crash-report --prop P --tier T --crumbs DIR --replay-dir DIR`: after a run of the same command line died
/// from a signal and was repeated with DMSIM_CRUMBS=DIR, find the run that kills the process (each worker's last
/// breadcrumb is a candidate; each candidate is executed in a child process) and write its replay file.
fn cmd_crash_report(a: &Args) -> i32 {
    let prop = a.opts.get("prop").cloned().unwrap_or_else(|| usage());
    let tier = a.opts.get("tier").cloned().unwrap_or_else(|| "quick".into());
    let seed = a.opts.get("seed").and_then(|s| s.parse().ok()).unwrap_or_else(env_seed);
    let scale: f64 = a.opts.get("scale").and_then(|s| s.parse().ok()).unwrap_or(1.0);
    let crumbs = a.opts.get("crumbs").cloned().unwrap_or_else(|| usage());
    let replay_dir = a.opts.get("replay-dir").cloned().unwrap_or_else(|| "/verif/replays".into());
    let phases = build_phases(a, &prop, &tier, seed, scale);
    let ctx = Arc::new(Ctx::new());
    let mut cands: Vec<(usize, u64)> = Vec::new();
    if let Ok(rd) = std::fs::read_dir(&crumbs) {
        for e in rd.flatten() {
            if let Ok(txt) = std::fs::read_to_string(e.path()) {
                let mut it = txt.split_whitespace();
                if let (Some(p), Some(i)) = (it.next().and_then(|x| x.parse::<usize>().ok()), it.next().and_then(|x| x.parse::<u64>().ok())) {
                    if !cands.contains(&(p, i)) {
                        cands.push((p, i));
                    }
                }
            }
        }
    }
    cands.sort();
    let mut found = 0;
    for (pi, i) in cands {
        let phase = match phases.get(pi) {
            Some(p) => p,
            None => continue,
        };
        let (rs, trace) = phase.source.trace(&ctx, i);
        if let Some(how) = child_dies(&trace, &replay_dir, &format!("{}-{}", pi, i)) {
            let _ = std::fs::create_dir_all(&replay_dir);
            let pname = phase.source.name();
            let path = format!("{}/{}-{}-{}-{}-{}-abort.json", replay_dir, prop, PROFILE, seed, pname, i);
            let rj = J::obj()
                .with("property", J::s("C05"))
                .with("class", J::s("process_abort"))
                .with("detail", J::s(&format!("a consumer entry point killed the process ({}): stack overflow, allocation failure or abort - neither a value nor an error", how)))
                .with("profile", J::s(PROFILE))
                .with("verif_seed", J::Int(seed as i64))
                .with("phase", J::s(&pname))
                .with("run_index", J::Int(i as i64))
                .with("run_seed", J::s(&format!("{:016x}", rs)))
                .with("minimised", trace.to_json())
                .with("original", trace.to_json());
            if std::fs::write(&path, rj.to_string_pretty()).is_ok() {
                println!("VIOLATION property=C05 replay={}", path);
                println!("  class=process_abort detail={}", how);
                found += 1;
            }
        }
    }
    if found > 0 {
        1
    } else {
        eprintln!("harness error: the process died, but none of the runs in flight kills a child process on its own");
        2
    }
}

// ---------------- run ----------------

fn env_seed() -> u64 {
    std::env::var("VERIF_SEED")
        .ok()
        .and_then(|s| s.trim().parse::<u64>().ok())
        .unwrap_or(DEFAULT_SEED)
}

fn cmd_run(a: &Args) -> i32 {
    let prop = a.opts.get("prop").cloned().unwrap_or_else(|| usage());
    let tier = a
        .opts
        .get("tier")
        .cloned()
        .or_else(|| std::env::var("VERIF_TIER").ok())
        .unwrap_or_else(|| "quick".into());
    if tier != "quick" && tier != "thorough" {
        usage();
    }
    let seed = a.opts.get("seed").and_then(|s| s.parse().ok()).unwrap_or_else(env_seed);
    let workers = a
        .opts
        .get("workers")
        .and_then(|s| s.parse().ok())
        .unwrap_or_else(|| std::thread::available_parallelism().map(|n| n.get()).unwrap_or(8));
    let scale: f64 = a.opts.get("scale").and_then(|s| s.parse().ok()).unwrap_or(1.0);
    let replay_dir = a.opts.get("replay-dir").cloned().unwrap_or_else(|| "/verif/replays".into());
    let known_path = a.opts.get("known").cloned().unwrap_or_else(|| "/verif/known_findings.json".into());
    let hang_ms = std::env::var("DMSIM_HANG_MS").ok().and_then(|s| s.parse().ok()).unwrap_or(120_000u64);

    println!("dmsim run property={} tier={} profile={} VERIF_SEED={} workers={}", prop, tier, PROFILE, seed, workers);
    let t0 = Instant::now();
    let ctx = Arc::new(Ctx::new());
    for n in &ctx.selftest_notes {
        println!("selftest note: {}", n);
    }
    let known = match load_known(&known_path) {
        Ok(k) => k,
        Err(e) => {
            eprintln!("harness error: cannot read {}: {}", known_path, e);
            return 2;
        }
    };

    let phases = build_phases(a, &prop, &tier, seed, scale);
    let phase_desc: Vec<J> = phases
        .iter()
        .map(|p| J::obj().with("phase", J::s(&p.source.name())).with("planned_runs", J::Int(p.runs as i64)))
        .collect();

    let cfg = RunCfg { workers, keep_log: a.opts.contains_key("log"), hang_ms, max_found: 64, stop_on_violation: !a.opts.contains_key("no-stop"), crumbs: std::env::var("DMSIM_CRUMBS").ok().filter(|d| !d.is_empty()) };
    let (stats, hang) = run_phases(&ctx, phases_clone_guard(phases), &cfg, &prop);
    let wall = t0.elapsed().as_secs_f64();

    // ---- hang ----
    if let Some(h) = hang {
        return handle_hang(&prop, seed, h, hang_ms, &replay_dir);
    }

    // ---- violations: known findings vs new ----
    let mut exit = 0;
    let mut reported: Vec<J> = Vec::new();
    let mut known_hits: BTreeMap<String, u64> = BTreeMap::new();
    let mut by_class: BTreeMap<String, FoundViolation> = BTreeMap::new();
    let mut new_violation_runs = 0u64;
    for f in &stats.found {
        let size = match &f.trace.producer {
            trace::Producer::Raw { size, .. } => Some(*size),
            _ => execute(&ctx, &f.trace, &runner::exec_opts_for(&f.trace.prop)).size,
        };
        if let Some(k) = known_match(&known, &prop, &f.class, size) {
            *known_hits.entry(format!("property={} {}", k.property, k.what)).or_insert(0) += 1;
        } else {
            new_violation_runs += 1;
            by_class.entry(f.class.clone()).or_insert_with(|| f.clone());
        }
    }
    for (k, n) in &known_hits {
        println!("KNOWN-FINDING: {} ({} run(s) in this batch)", k, n);
    }
    let _ = std::fs::create_dir_all(&replay_dir);
    for (class, f) in by_class.iter().take(8) {
        let m = minimise(&ctx, &f.trace, &prop, class, 2500);
        let o = execute(&ctx, &m.trace, &runner::exec_opts_for(&m.trace.prop));
        let detail = o
            .violations
            .iter()
            .find(|v| v.prop == prop && v.class == *class)
            .map(|v| v.detail.clone())
            .unwrap_or_else(|| f.detail.clone());
        let path = format!("{}/{}-{}-{}-{}-{}.json", replay_dir, prop, PROFILE, seed, f.phase, f.index);
        let rj = J::obj()
            .with("property", J::s(&prop))
            .with("class", J::s(class))
            .with("detail", J::s(&detail))
            .with("profile", J::s(PROFILE))
            .with("verif_seed", J::Int(seed as i64))
            .with("phase", J::s(&f.phase))
            .with("run_index", J::Int(f.index as i64))
            .with("run_seed", J::s(&format!("{:016x}", f.run_seed)))
            .with("minimisation_executions", J::i(m.executions))
            .with("original_fault_count", J::i(f.trace.faults.len()))
            .with("minimised_fault_count", J::i(m.trace.faults.len()))
            .with("minimised", m.trace.to_json())
            .with("original", f.trace.to_json());
        if let Err(e) = std::fs::write(&path, rj.to_string_pretty()) {
            eprintln!("harness error: cannot write replay {}: {}", path, e);
            return 2;
        }
        println!("VIOLATION property={} replay={}", prop, path);
        println!("  class={} detail={}", class, detail);
        reported.push(J::obj().with("class", J::s(class)).with("replay", J::s(&path)).with("detail", J::s(&detail)));
        exit = 1;
    }

    // ---- evidence (partial for this profile) ----
    let ev = evidence_json(&prop, &tier, seed, &stats, wall, workers, new_violation_runs, &known_hits, &reported, &phase_desc, &ctx);
    let partial = a
        .opts
        .get("partial")
        .cloned()
        .unwrap_or_else(|| format!("/verif/evidence/partial/{}.{}.json", prop, PROFILE));
    if let Some(dir) = std::path::Path::new(&partial).parent() {
        let _ = std::fs::create_dir_all(dir);
    }
    if let Err(e) = std::fs::write(&partial, ev.to_string_pretty()) {
        eprintln!("harness error: cannot write {}: {}", partial, e);
        return 2;
    }
    if let Some(logp) = a.opts.get("log") {
        let mut s = String::new();
        for (_, l) in &stats.log {
            s.push_str(l);
            s.push('\n');
        }
        s.push_str(&format!("digest {:016x}\n", stats.digest));
        if std::fs::write(logp, s).is_err() {
            eprintln!("harness error: cannot write log {}", logp);
            return 2;
        }
    }
    println!(
        "done: {} runs ({} transmissions) in {:.1}s = {:.0} runs/h, {} distinct signatures ({} non-trivial), digest {:016x}, violations(new)={} known={}",
        stats.runs,
        stats.transmissions,
        wall,
        stats.runs as f64 / wall * 3600.0,
        stats.sigs.len(),
        stats.sigs_nontrivial.len(),
        stats.digest,
        new_violation_runs,
        known_hits.values().sum::<u64>()
    );
    exit
}

fn phases_clone_guard(p: Vec<Phase>) -> Vec<Phase> {
    p
}

fn handle_hang(prop: &str, seed: u64, h: runner::HangReport, hang_ms: u64, replay_dir: &str) -> i32 {
    println!("run {} of phase {} exceeded {} ms, also when re-executed in isolation", h.index, h.phase, hang_ms);
    let _ = std::fs::create_dir_all(replay_dir);
    let path = format!("{}/{}-{}-{}-{}-{}-hang.json", replay_dir, prop, PROFILE, seed, h.phase, h.index);
    let rj = J::obj()
        .with("property", J::s(prop))
        .with("class", J::s("hang"))
        .with("detail", J::s(&format!("a consumer entry point did not return within {} ms, twice", hang_ms)))
        .with("profile", J::s(PROFILE))
        .with("verif_seed", J::Int(seed as i64))
        .with("phase", J::s(&h.phase))
        .with("run_index", J::Int(h.index as i64))
        .with("run_seed", J::s(&format!("{:016x}", h.run_seed)))
        .with("minimised", h.trace.to_json())
        .with("original", h.trace.to_json());
    let _ = std::fs::write(&path, rj.to_string_pretty());
    if prop == "C05" || prop == "C03" {
        println!("VIOLATION property={} replay={}", prop, path);
        println!("  class=hang");
        1
    } else {
        eprintln!("a run hangs (replay {}); non-termination belongs to C05, not to {}", path, prop);
        2
    }
}

/// up to two written-out runs per phase (the random phase first)
fn pick_samples(all: &[J]) -> Vec<J> {
    let mut phases: Vec<String> = Vec::new();
    for x in all {
        if let Some(p) = x.get("phase").and_then(|p| p.as_str()) {
            if !phases.iter().any(|q| q == p) {
                phases.push(p.to_string());
            }
        }
    }
    phases.sort_by_key(|p| if p == "random" { 0 } else { 1 });
    let mut out = Vec::new();
    for p in phases {
        let mut v: Vec<&J> = all.iter().filter(|x| x.get("phase").and_then(|q| q.as_str()) == Some(p.as_str())).collect();
        v.sort_by_key(|x| x.get("run_index").and_then(|i| i.as_i64()).unwrap_or(0));
        let take = if p == "random" { 3 } else { 1 };
        // prefer a later run over run 0 for variety
        for x in v.iter().rev().take(take) {
            out.push((*x).clone());
        }
    }
    out
}

fn counts_by_name(names: &[&str], counts: &[u64]) -> J {
    J::Obj(
        names
            .iter()
            .zip(counts.iter())
            .filter(|(_, c)| **c > 0)
            .map(|(n, c)| (n.to_string(), J::Int(*c as i64)))
            .collect(),
    )
}

fn rule_text(prop: &str) -> String {
    let common = "A case is one simulated transmission: producer (real encoder or seeded raw codewords through the real encode_error) -> medium (the simulator: explicit primitive fault list at the sender-side, codeword and pixel stages) -> consumer (real try_from_bits, codewords, decode_error, decode_data, decode_str and DataMatrix::decode). Runs are generated from mix(VERIF_SEED, property, run index) (random phase) or enumerated (sweep phases). A case is NON-TRIVIAL when at least one injected fault actually fired (changed a codeword/module/the geometry) or when the input was fabricated by the medium outright (no producer: a pixel buffer or codeword stream at the density-1 limit). Two cases are DISTINCT when their run signatures differ: (build profile, symbol size, producer kind, stages hit, set of fault kinds that fired, per-block damage class vector bucketed {0,<t,=t,t+1,>t+1}, regions touched, parser/EC/data/string outcome classes, violation classes). distinct_nontrivial = number of distinct signatures among non-trivial cases, counted by the run (a HashSet of 64-bit signature hashes; hash collisions can only under-count).";
    let specific = match prop {
        "C03" => " C03 cases keep the damage within floor(k/2) codewords per interleaved block (premise measured on the planned received word, not assumed); oracle: decode_error Ok and complete vector restored, DataMatrix::decode equals the data decoder applied to the sent data part.",
        "C09" => " C09 cases put damage beyond the radius (t+1.., density 1, bursts, blots, aligned multiples of partial generator polynomials); oracle: decode_error Ok => encode_error(data part) == EC part.",
        "C05" => " C05 cases cover every fault kind at every stage and fabricated pixel buffers / codeword streams; oracle: no consumer entry point panics (catch_unwind) or exceeds the watchdog limit.",
        "C08" => " C08 cases damage data modules, fixed-pattern modules and the geometry of rendered symbols, or fabricate pixel buffers; oracles: rendering matches the independent template, parse(render(c)) == c, accepted => re-render reproduces the array bit for bit, valid fixed pattern => accepted, geometry error classes.",
        _ => "",
    };
    format!("{}{}", common, specific)
}

#[allow(clippy::too_many_arguments)]
fn evidence_json(
    prop: &str,
    tier: &str,
    seed: u64,
    st: &Stats,
    wall: f64,
    workers: usize,
    new_violations: u64,
    known_hits: &BTreeMap<String, u64>,
    reported: &[J],
    phase_desc: &[J],
    ctx: &Ctx,
) -> J {
    let level = if prop == "C08" { "fault_enumeration" } else { "exploration" };
    let sizes_hit = st.per_size_runs.iter().filter(|c| **c > 0).count();
    let mut region_cov = Vec::new();
    for i in 0..N_SIZES {
        let r = st.per_size_regions[i];
        let multi = SIZES[i].blocks > 1;
        let full = (r & 1 != 0) && (r & 2 != 0) && (r & 4 != 0) && (!multi || (r & 8 != 0));
        if !full && st.per_size_runs[i] > 0 {
            region_cov.push(J::s(SIZES[i].name));
        }
    }
    let probes = J::Obj(
        PROBE_NAMES
            .iter()
            .zip(st.probes.iter())
            .map(|(n, c)| (n.to_string(), J::Int(*c as i64)))
            .collect(),
    );
    let internal_probes = internal_probe_counts();
    let coverage = J::obj()
        .with("evaluations", J::Int(st.runs as i64))
        .with("distinct_nontrivial", J::Int(st.sigs_nontrivial.len() as i64))
        .with("rule", J::Str(rule_text(prop)))
        .with("samples", J::Arr(pick_samples(&st.samples)))
        .with("exhaustive", J::Bool(false))
        .with("profile", J::s(PROFILE))
        .with("phases", J::Arr(phase_desc.to_vec()))
        .with("runs_per_phase", runner::class_counts_json(&st.phase_runs))
        .with("transmissions_simulated", J::Int(st.transmissions as i64))
        .with("simulated_time_note", J::s("the system has no clock; simulated time is the number of transmissions"))
        .with("runs_per_hour", J::Int((st.runs as f64 / wall.max(1e-9) * 3600.0) as i64))
        .with("workers", J::i(workers))
        .with("slowest_single_run_ms", J::Num((st.slowest_run_us as f64) / 1000.0))
        .with("slowest_single_run", J::s(&st.slowest_run_desc))
        .with("batch_digest", J::s(&format!("{:016x}", st.digest)))
        .with("distinct_signatures_all", J::Int(st.sigs.len() as i64))
        .with("runs_with_a_fired_fault", J::Int(st.runs_with_fault_fired as i64))
        .with("runs_fault_free_control", J::Int(st.runs_fault_free as i64))
        .with("runs_within_correction_radius", J::Int(st.premise_c03_runs as i64))
        .with("faults_fired_per_kind", counts_by_name(KINDS, &st.fired_per_kind))
        .with("faults_configured_per_kind", counts_by_name(KINDS, &st.configured_per_kind))
        .with(
            "runs_per_fault_stage",
            J::obj()
                .with("S1_sender_side", J::Int(st.stage_runs[0] as i64))
                .with("S2_codewords", J::Int(st.stage_runs[1] as i64))
                .with("S4_pixels_geometry", J::Int(st.stage_runs[2] as i64)),
        )
        .with("reach_probes_external", probes)
        .with("reach_probes_internal", internal_probes)
        .with("symbol_sizes_exercised", J::i(sizes_hit))
        .with("sizes_without_full_region_block_coverage", J::Arr(region_cov))
        .with(
            "producer_kinds",
            J::obj()
                .with("raw_codewords_through_real_encode_error", J::Int(st.producer_kinds[0] as i64))
                .with("real_message_encoder", J::Int(st.producer_kinds[1] as i64))
                .with("none_medium_fabricated_input", J::Int(st.producer_kinds[2] as i64)),
        )
        .with("producer_refused", J::Int(st.refused as i64))
        .with("producer_panics", J::Int(st.producer_panics as i64))
        .with("producer_panic_sites", runner::class_counts_json(&st.producer_panic_sites))
        .with("control_failures", J::Int(st.control_failures as i64))
        .with("parser_outcomes", runner::class_counts_json(&st.parse))
        .with("error_correction_outcomes", runner::class_counts_json(&st.ec))
        .with("data_decoder_outcomes", runner::class_counts_json(&st.data))
        .with("string_decoder_outcomes", runner::class_counts_json(&st.strc))
        .with("events_of_other_properties_seen_not_attributed", runner::class_counts_json(&st.other_prop_violations))
        .with("other_events", runner::class_counts_json(&st.other_events))
        .with("violation_classes", runner::class_counts_json(&st.violation_classes))
        .with("violations_reported", J::Arr(reported.to_vec()))
        .with(
            "known_findings_hit",
            J::Obj(known_hits.iter().map(|(k, v)| (k.clone(), J::Int(*v as i64))).collect()),
        )
        .with("selftest_notes", J::Arr(ctx.selftest_notes.iter().map(|s| J::s(s)).collect()))
        .with(
            "components",
            J::obj()
                .with("real", J::Arr(vec![
                    J::s("DataMatrixBuilder::encode_eci / data encoder (producer)"),
                    J::s("errorcode::encode_error (producer)"),
                    J::s("MatrixMap::new_with_codewords, MatrixMap::bitmap, Bitmap::bits/width/height (producer)"),
                    J::s("MatrixMap::try_from_bits, MatrixMap::codewords (consumer)"),
                    J::s("errorcode::decode_error (consumer)"),
                    J::s("data::decode_data, data::decode_str (consumer)"),
                    J::s("DataMatrix::decode (consumer, whole)"),
                ]))
                .with("stub", J::Arr(vec![
                    J::s("the medium between bitmap() and try_from_bits(): the simulator itself"),
                    J::s("raw-codeword workload generator (seeded bytes fed to the real encode_error)"),
                    J::s("scheduler: trivial, one producer -> medium -> one consumer, FIFO; there is no concurrency in the system under test"),
                    J::s("clock: none exists in the system under test"),
                ])),
        );
    J::obj()
        .with("property_id", J::s(prop))
        .with("tier", J::s(tier))
        .with("seed", J::Int(seed as i64))
        .with("level", J::s(level))
        .with("coverage", coverage)
        .with(
            "assumptions",
            J::Arr(vec![
                J::s("the symbol catalogue (sizes, data/EC codeword counts, interleaved blocks) and the fixed-pattern template in the simulator are faithful transcriptions of ISO/IEC 16022 and ISO 21471 (DESIGN.md Appendix A); cross-checked at start-up against what the crate's public API reveals"),
                J::s("multi-fault spaces are sampled, not enumerated; a clean batch is evidence, not proof"),
                J::s("catch_unwind observes every panic of the consumer entry points (crate built with panic=unwind)"),
                J::s("the simulator's own GF(256) model is used only to aim faults and label runs, never as an oracle"),
            ]),
        )
        .with("wall_s", J::Num((wall * 100.0).round() / 100.0))
        .with("violations", J::Int(new_violations as i64))
}

#[cfg(feature = "probes")]
fn internal_probe_counts() -> J {
    let names = datamatrix::verif_probes::NAMES;
    let counts = datamatrix::verif_probes::snapshot();
    J::Obj(
        names
            .iter()
            .zip(counts.iter())
            .map(|(n, c)| (n.to_string(), J::Int(*c as i64)))
            .collect(),
    )
}

#[cfg(not(feature = "probes"))]
fn internal_probe_counts() -> J {
    J::s("built without the verif_probes hook")
}

// ---------------- merge ----------------

fn add_counts(dst: &mut J, src: &J) {
    // recursively add integer leaves of objects
    if let (J::Obj(d), J::Obj(s)) = (dst, src) {
        for (k, v) in s {
            match d.iter_mut().find(|(kk, _)| kk == k) {
                Some((_, dv)) => match (dv, v) {
                    (J::Int(a), J::Int(b)) => {
                        if k == "workers" || k == "symbol_sizes_exercised" {
                            *a = (*a).max(*b)
                        } else {
                            *a += *b
                        }
                    }
                    (dv @ J::Obj(_), J::Obj(_)) => add_counts(dv, v),
                    _ => {}
                },
                None => d.push((k.clone(), v.clone())),
            }
        }
    }
}

fn cmd_merge(a: &Args) -> i32 {
    let prop = a.opts.get("prop").cloned().unwrap_or_else(|| usage());
    let tier = a.opts.get("tier").cloned().unwrap_or_else(|| usage());
    let out = a.opts.get("out").cloned().unwrap_or_else(|| usage());
    let mut parts: Vec<J> = Vec::new();
    for p in &a.pos {
        match std::fs::read_to_string(p).map_err(|e| e.to_string()).and_then(|t| json::parse(&t)) {
            Ok(j) => parts.push(j),
            Err(e) => {
                eprintln!("harness error: cannot read partial evidence {}: {}", p, e);
                return 2;
            }
        }
    }
    if parts.is_empty() {
        eprintln!("harness error: no partial evidence");
        return 2;
    }
    let first = parts[0].clone();
    let mut cov = first.get("coverage").cloned().unwrap_or(J::obj());
    let mut wall = first.get("wall_s").and_then(|x| x.as_f64()).unwrap_or(0.0);
    let mut violations = first.get("violations").and_then(|x| x.as_i64()).unwrap_or(0);
    let mut per_profile = vec![(
        first.get("coverage").and_then(|c| c.get("profile")).and_then(|x| x.as_str()).unwrap_or("?").to_string(),
        summary_of(&first),
    )];
    for p in parts.iter().skip(1) {
        let c = p.get("coverage").cloned().unwrap_or(J::obj());
        // integer leaves are summed (signatures include the build profile, so distinct counts are disjoint)
        let keep_samples = cov.get("samples").cloned();
        add_counts(&mut cov, &c);
        if let (Some(J::Arr(mut s1)), Some(J::Arr(s2))) = (keep_samples, c.get("samples").cloned()) {
            s1.extend(s2.into_iter().take(3));
            cov.set("samples", J::Arr(s1));
        }
        if let (Some(J::Arr(mut v1)), Some(J::Arr(v2))) = (cov.get("violations_reported").cloned(), c.get("violations_reported").cloned()) {
            v1.extend(v2);
            cov.set("violations_reported", J::Arr(v1));
        }
        wall += p.get("wall_s").and_then(|x| x.as_f64()).unwrap_or(0.0);
        violations += p.get("violations").and_then(|x| x.as_i64()).unwrap_or(0);
        per_profile.push((
            c.get("profile").and_then(|x| x.as_str()).unwrap_or("?").to_string(),
            summary_of(p),
        ));
    }
    // recompute derived rates
    let evals = cov.get("evaluations").and_then(|x| x.as_i64()).unwrap_or(0);
    cov.set("runs_per_hour", J::Int((evals as f64 / wall.max(1e-9) * 3600.0) as i64));
    cov.set("profile", J::s("merged"));
    cov.set("per_build_profile", J::Obj(per_profile));
    cov.set("batch_digest", J::s("see per_build_profile"));
    let ev = J::obj()
        .with("property_id", J::s(&prop))
        .with("tier", J::s(&tier))
        .with("seed", first.get("seed").cloned().unwrap_or(J::Int(0)))
        .with("level", first.get("level").cloned().unwrap_or(J::s("exploration")))
        .with("coverage", cov)
        .with("assumptions", first.get("assumptions").cloned().unwrap_or(J::Arr(vec![])))
        .with("wall_s", J::Num((wall * 100.0).round() / 100.0))
        .with("violations", J::Int(violations));
    if let Some(dir) = std::path::Path::new(&out).parent() {
        let _ = std::fs::create_dir_all(dir);
    }
    if let Err(e) = std::fs::write(&out, ev.to_string_pretty()) {
        eprintln!("harness error: cannot write {}: {}", out, e);
        return 2;
    }
    0
}

fn summary_of(p: &J) -> J {
    let c = p.get("coverage").cloned().unwrap_or(J::obj());
    let mut o = J::obj();
    for k in ["evaluations", "distinct_nontrivial", "batch_digest", "runs_per_hour", "workers", "runs_per_phase", "reach_probes_internal"] {
        if let Some(v) = c.get(k) {
            o.set(k, v.clone());
        }
    }
    o.set("wall_s", p.get("wall_s").cloned().unwrap_or(J::Null));
    o.set("violations", p.get("violations").cloned().unwrap_or(J::Null));
    o
}

// ---------------- replay ----------------

fn cmd_replay(a: &Args) -> i32 {
    let path = match a.pos.first() {
        Some(p) => p.clone(),
        None => usage(),
    };
    let j = match std::fs::read_to_string(&path).map_err(|e| e.to_string()).and_then(|t| json::parse(&t)) {
        Ok(j) => j,
        Err(e) => {
            eprintln!("harness error: cannot read replay file {}: {}", path, e);
            return 2;
        }
    };
    let prop = j.get("property").and_then(|x| x.as_str()).unwrap_or("").to_string();
    let class = j.get("class").and_then(|x| x.as_str()).unwrap_or("").to_string();
    let ctx = Arc::new(Ctx::new());
    let hang_ms = std::env::var("DMSIM_HANG_MS").ok().and_then(|s| s.parse().ok()).unwrap_or(120_000u64);
    if class == "process_abort" {
        let t = match j.get("minimised").map(Trace::from_json) {
            Some(Ok(t)) => t,
            _ => {
                eprintln!("harness error: replay file has no trace");
                return 2;
            }
        };
        let dir = std::env::temp_dir().to_string_lossy().to_string();
        return match child_dies(&t, &dir, "replay") {
            Some(how) => {
                println!("minimised trace: REPRODUCED property={} class=process_abort ({})", prop, how);
                println!("VIOLATION property={} replay={}", prop, path);
                1
            }
            None => {
                println!("minimised trace: NOT reproduced; the child process returned normally");
                0
            }
        };
    }
    let mut reproduced_all = true;
    let mut any = false;
    for which in ["minimised", "original"] {
        let t = match j.get(which).map(Trace::from_json) {
            Some(Ok(t)) => t,
            Some(Err(e)) => {
                eprintln!("harness error: bad {} trace: {}", which, e);
                return 2;
            }
            None => continue,
        };
        any = true;
        // execute under the watchdog limit
        let ctx2 = ctx.clone();
        let t2 = t.clone();
        let (tx, rx) = std::sync::mpsc::channel();
        std::thread::spawn(move || {
            let o = execute(&ctx2, &t2, &runner::exec_opts_for(&t2.prop));
            let _ = tx.send(o);
        });
        match rx.recv_timeout(std::time::Duration::from_millis(hang_ms)) {
            Ok(o) => {
                let hit = o.violations.iter().find(|v| v.prop == prop && v.class == class);
                match hit {
                    Some(v) => println!("{} trace ({} faults): REPRODUCED property={} class={} detail={}", which, t.faults.len(), prop, class, v.detail),
                    None => {
                        reproduced_all = false;
                        println!(
                            "{} trace ({} faults): NOT reproduced; violations now: [{}]",
                            which,
                            t.faults.len(),
                            o.violations.iter().map(|v| format!("{}:{}", v.prop, v.class)).collect::<Vec<_>>().join(", ")
                        );
                    }
                }
            }
            Err(_) => {
                if class == "hang" {
                    println!("{} trace: REPRODUCED property={} class=hang (no return within {} ms)", which, prop, hang_ms);
                } else {
                    reproduced_all = false;
                    println!("{} trace: did not return within {} ms (recorded class was {})", which, hang_ms, class);
                }
            }
        }
    }
    // generator consistency (informational): re-derive the original trace from (seed, run index)
    if let (Some(seed), Some(idx), Some(phase)) = (
        j.get("verif_seed").and_then(|x| x.as_u64()),
        j.get("run_index").and_then(|x| x.as_u64()),
        j.get("phase").and_then(|x| x.as_str()),
    ) {
        if phase == "random" {
            let (_, t) = Source::Random { prop: prop.clone(), seed }.trace(&ctx, idx);
            if let Some(Ok(orig)) = j.get("original").map(Trace::from_json) {
                if t == orig {
                    println!("generator check: (VERIF_SEED={}, run {}) re-derives the recorded original trace exactly", seed, idx);
                } else {
                    println!("generator check: (VERIF_SEED={}, run {}) now derives a different trace (generator or tree changed since the file was written); the explicit traces above are authoritative", seed, idx);
                }
            }
        }
    }
    if !any {
        eprintln!("harness error: replay file has no trace");
        return 2;
    }
    if reproduced_all {
        println!("VIOLATION property={} replay={}", prop, path);
        1
    } else {
        0
    }
}

// ---------------- determinism ----------------

fn cmd_determinism(a: &Args) -> i32 {
    let nseeds: u64 = a.opts.get("seeds").and_then(|s| s.parse().ok()).unwrap_or(6);
    let runs: u64 = a.opts.get("runs").and_then(|s| s.parse().ok()).unwrap_or(3000);
    let exe = std::env::current_exe().expect("current_exe");
    // next to the executable (sim/target/<profile>/), never under /tmp
    let dir = exe.parent().map(|p| p.to_path_buf()).unwrap_or_default().join(format!("dmsim-det-{}", std::process::id()));
    let _ = std::fs::create_dir_all(&dir);
    let mut bad = 0;
    let mut compared = 0;
    let only = a.opts.get("prop").cloned();
    for prop in ["C03", "C05", "C08", "C09"] {
        if let Some(o) = &only {
            if o != prop {
                continue;
            }
        }
        for s in 0..nseeds {
            let seed = 1000 + 7919 * s + gen::prop_tag(prop) % 1000;
            let mut logs: Vec<(usize, String)> = Vec::new();
            for (rep, workers) in [(0usize, 1usize), (1, 5), (2, 16), (3, 16)] {
                let log = dir.join(format!("{}-{}-{}-{}.log", prop, seed, workers, rep));
                let part = dir.join(format!("{}-{}-{}-{}.json", prop, seed, workers, rep));
                let status = std::process::Command::new(&exe)
                    .args([
                        "run", "--prop", prop, "--tier", "quick", "--seed", &seed.to_string(), "--runs", &runs.to_string(),
                        "--no-sweeps", "1", "--workers", &workers.to_string(), "--log", log.to_str().unwrap(),
                        "--partial", part.to_str().unwrap(), "--replay-dir", dir.join("replays").to_str().unwrap(),
                    ])
                    .stdout(std::process::Stdio::null())
                    .status();
                match status {
                    Ok(st) if st.code() == Some(0) || st.code() == Some(1) => {}
                    other => {
                        eprintln!("harness error: child run failed: {:?}", other);
                        let _ = std::fs::remove_dir_all(&dir);
                        return 2;
                    }
                }
                logs.push((workers, std::fs::read_to_string(&log).unwrap_or_default()));
            }
            for w in logs.windows(2) {
                compared += 1;
                if w[0].1 != w[1].1 || w[0].1.is_empty() {
                    bad += 1;
                    let (la, lb): (Vec<&str>, Vec<&str>) = (w[0].1.lines().collect(), w[1].1.lines().collect());
                    let first = la.iter().zip(lb.iter()).find(|(x, y)| x != y);
                    eprintln!(
                        "NONDETERMINISM property={} seed={} workers {} vs {}: first differing line: {:?}",
                        prop, seed, w[0].0, w[1].0, first
                    );
                }
            }
        }
    }
    let _ = std::fs::remove_dir_all(&dir);
    println!("determinism: {} log comparisons ({} seeds x {} x worker counts 1/5/16/16, {} runs each, separate processes), {} differing", compared, nseeds, only.as_deref().unwrap_or("4 properties"), runs, bad);
    if bad > 0 {
        2
    } else {
        0
    }
}

fn cmd_selftest() -> i32 {
    let ctx = Ctx::new();
    let mut bad = 0;
    for n in &ctx.selftest_notes {
        println!("selftest note: {}", n);
        bad += 1;
    }
    // JSON round trip of traces
    for prop in ["C03", "C05", "C08", "C09"] {
        for i in 0..300u64 {
            let rs = rng::run_seed(DEFAULT_SEED, gen::prop_tag(prop), i);
            let t = gen::generate(&ctx, prop, rs, i);
            let j = t.to_json().to_string_pretty();
            match json::parse(&j).and_then(|j| Trace::from_json(&j)) {
                Ok(t2) if t2 == t => {}
                Ok(_) => {
                    println!("selftest: trace JSON round trip differs ({} run {})", prop, i);
                    bad += 1;
                }
                Err(e) => {
                    println!("selftest: trace JSON round trip failed ({} run {}): {}", prop, i, e);
                    bad += 1;
                }
            }
        }
    }
    // the reference model of the error decoder: it must find every word within the radius (else it silently loses
    // premises), and whatever it returns must be within the radius of its input and have vanishing syndromes
    {
        use datamatrix::errorcode::encode_error;
        let mut rng = rng::Rng::new(0x5e1f7e57);
        let mut found = 0u64;
        let mut tried = 0u64;
        for s in catalogue::SIZES.iter() {
            if !ctx.gf_ok[s.idx] {
                continue;
            }
            for rep in 0..6usize {
                let data: Vec<u8> = (0..s.n_data).map(|_| rng.below(256) as u8).collect();
                let mut word = data.clone();
                word.extend_from_slice(&encode_error(&data, s.size));
                for b in 0..s.blocks {
                    let pos = s.block_positions(b);
                    let sent: Vec<u8> = pos.iter().map(|p| word[*p]).collect();
                    // rep 0..3: exactly t errors; 4: 1 error; 5: t + 1 errors (must not "restore" the sent word)
                    let w = match rep { 0..=3 => s.t(), 4 => 1, _ => s.t() + 1 };
                    let mut rx = sent.clone();
                    for i in rng.sample_distinct(rx.len(), w.min(rx.len())) {
                        rx[i] ^= rng.nonzero_byte();
                    }
                    tried += 1;
                    match ctx.gf.bd_decode_block(&rx, s.k) {
                        Some(fixed) => {
                            let d = fixed.iter().zip(rx.iter()).filter(|(a, b)| a != b).count();
                            if d > s.t() || ctx.gf.syndromes(&fixed, s.k).iter().any(|x| *x != 0) {
                                println!("selftest: reference decoder returned a word outside the radius or a non-codeword ({} block {})", s.name, b);
                                bad += 1;
                            }
                            if w <= s.t() {
                                if fixed == sent { found += 1; } else {
                                    println!("selftest: reference decoder restored a different word within the radius ({} block {})", s.name, b);
                                    bad += 1;
                                }
                            }
                        }
                        None => {
                            if w <= s.t() {
                                println!("selftest: reference decoder missed {} error(s) in {} block {}", w, s.name, b);
                                bad += 1;
                            }
                        }
                    }
                }
            }
        }
        println!("selftest: reference decoder restored {} of {} blocks tried ({} with t + 1 errors)", found, tried, tried / 6);
    }
    println!("selftest: {} problem(s)", bad);
    if bad > 0 {
        2
    } else {
        0
    }
}

/// Debug helper: print the trace of one random run and what the consumer makes of it.
fn cmd_show(a: &Args) -> i32 {
    let prop = a.opts.get("prop").cloned().unwrap_or_else(|| usage());
    let seed = a.opts.get("seed").and_then(|s| s.parse().ok()).unwrap_or_else(env_seed);
    let idx: u64 = a.opts.get("index").and_then(|s| s.parse().ok()).unwrap_or(0);
    let ctx = Ctx::new();
    let (rs, t) = Source::Random { prop: prop.clone(), seed }.trace(&ctx, idx);
    println!("run_seed {:016x}", rs);
    println!("{}", t.to_json().to_string_pretty());
    let o = execute(&ctx, &t, &runner::exec_opts_for(&prop));
    println!("{:?}", o);
    if let trace::Producer::Msg { msg, list, modes, macros, fnc1, eci } = &t.producer {
        if let Ok(Some((size, data, _))) = exec::produce_msg(msg, list, *modes, *macros, *fnc1, *eci) {
            println!("size {} data codewords {:?}", SIZES[size].name, data);
            println!("decode_data -> {:?}", datamatrix::data::decode_data(&data));
            println!("message      -> {:?}", msg);
        }
    }
    0
}

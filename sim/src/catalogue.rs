//! Independent symbol catalogue and fixed-pattern template, transcribed from
//! ISO/IEC 16022 Table 7 and ISO 21471 (DESIGN.md Appendix A) - NOT read from the crate.

use datamatrix::placement::{Bit, MatrixMap};
use datamatrix::SymbolSize;

#[derive(Clone, Copy, Debug)]
pub struct SizeInfo {
    pub idx: usize,
    pub name: &'static str,
    pub rows: usize,
    pub cols: usize,
    pub reg_rows: usize,
    pub reg_cols: usize,
    pub n_data: usize,
    pub blocks: usize,
    pub k: usize,
    pub size: SymbolSize,
}

macro_rules! sz {
    ($idx:expr, $v:ident, $r:expr, $c:expr, $rr:expr, $rc:expr, $nd:expr, $b:expr, $k:expr) => {
        SizeInfo {
            idx: $idx,
            name: stringify!($v),
            rows: $r,
            cols: $c,
            reg_rows: $rr,
            reg_cols: $rc,
            n_data: $nd,
            blocks: $b,
            k: $k,
            size: SymbolSize::$v,
        }
    };
}

pub const N_SIZES: usize = 48;

#[rustfmt::skip]
pub static SIZES: [SizeInfo; N_SIZES] = [
    // ISO/IEC 16022 square
    sz!(0, Square10, 10, 10, 1, 1, 3, 1, 5),
    sz!(1, Square12, 12, 12, 1, 1, 5, 1, 7),
    sz!(2, Square14, 14, 14, 1, 1, 8, 1, 10),
    sz!(3, Square16, 16, 16, 1, 1, 12, 1, 12),
    sz!(4, Square18, 18, 18, 1, 1, 18, 1, 14),
    sz!(5, Square20, 20, 20, 1, 1, 22, 1, 18),
    sz!(6, Square22, 22, 22, 1, 1, 30, 1, 20),
    sz!(7, Square24, 24, 24, 1, 1, 36, 1, 24),
    sz!(8, Square26, 26, 26, 1, 1, 44, 1, 28),
    sz!(9, Square32, 32, 32, 2, 2, 62, 1, 36),
    sz!(10, Square36, 36, 36, 2, 2, 86, 1, 42),
    sz!(11, Square40, 40, 40, 2, 2, 114, 1, 48),
    sz!(12, Square44, 44, 44, 2, 2, 144, 1, 56),
    sz!(13, Square48, 48, 48, 2, 2, 174, 1, 68),
    sz!(14, Square52, 52, 52, 2, 2, 204, 2, 42),
    sz!(15, Square64, 64, 64, 4, 4, 280, 2, 56),
    sz!(16, Square72, 72, 72, 4, 4, 368, 4, 36),
    sz!(17, Square80, 80, 80, 4, 4, 456, 4, 48),
    sz!(18, Square88, 88, 88, 4, 4, 576, 4, 56),
    sz!(19, Square96, 96, 96, 4, 4, 696, 4, 68),
    sz!(20, Square104, 104, 104, 4, 4, 816, 6, 56),
    sz!(21, Square120, 120, 120, 6, 6, 1050, 6, 68),
    sz!(22, Square132, 132, 132, 6, 6, 1304, 8, 62),
    sz!(23, Square144, 144, 144, 6, 6, 1558, 10, 62),
    // ISO/IEC 16022 rectangular
    sz!(24, Rect8x18, 8, 18, 1, 1, 5, 1, 7),
    sz!(25, Rect8x32, 8, 32, 1, 2, 10, 1, 11),
    sz!(26, Rect12x26, 12, 26, 1, 1, 16, 1, 14),
    sz!(27, Rect12x36, 12, 36, 1, 2, 22, 1, 18),
    sz!(28, Rect16x36, 16, 36, 1, 2, 32, 1, 24),
    sz!(29, Rect16x48, 16, 48, 1, 2, 49, 1, 28),
    // ISO 21471 (DMRE)
    sz!(30, Rect8x48, 8, 48, 1, 2, 18, 1, 15),
    sz!(31, Rect8x64, 8, 64, 1, 4, 24, 1, 18),
    sz!(32, Rect8x80, 8, 80, 1, 4, 32, 1, 22),
    sz!(33, Rect8x96, 8, 96, 1, 4, 38, 1, 28),
    sz!(34, Rect8x120, 8, 120, 1, 6, 49, 1, 32),
    sz!(35, Rect8x144, 8, 144, 1, 6, 63, 1, 36),
    sz!(36, Rect12x64, 12, 64, 1, 4, 43, 1, 27),
    sz!(37, Rect12x88, 12, 88, 1, 4, 64, 1, 36),
    sz!(38, Rect16x64, 16, 64, 1, 4, 62, 1, 36),
    sz!(39, Rect20x36, 20, 36, 1, 2, 44, 1, 28),
    sz!(40, Rect20x44, 20, 44, 1, 2, 56, 1, 34),
    sz!(41, Rect20x64, 20, 64, 1, 4, 84, 1, 42),
    sz!(42, Rect22x48, 22, 48, 1, 2, 72, 1, 38),
    sz!(43, Rect24x48, 24, 48, 1, 2, 80, 1, 41),
    sz!(44, Rect24x64, 24, 64, 1, 4, 108, 1, 46),
    sz!(45, Rect26x40, 26, 40, 1, 2, 70, 1, 38),
    sz!(46, Rect26x48, 26, 48, 1, 2, 90, 1, 42),
    sz!(47, Rect26x64, 26, 64, 1, 4, 118, 1, 50),
];

/// Sizes whose k is odd (C09's seven).
pub const ODD_K: [usize; 7] = [0, 1, 24, 25, 30, 36, 43];
/// Multi-block sizes.
pub const MULTI_BLOCK: [usize; 10] = [14, 15, 16, 17, 18, 19, 20, 21, 22, 23];

impl SizeInfo {
    #[inline]
    pub fn t(&self) -> usize {
        self.k / 2
    }
    #[inline]
    pub fn n_ec(&self) -> usize {
        self.blocks * self.k
    }
    #[inline]
    pub fn n_total(&self) -> usize {
        self.n_data + self.n_ec()
    }
    #[inline]
    pub fn n_pixels(&self) -> usize {
        self.rows * self.cols
    }
    /// Which interleaved block does codeword position p (in the full vector) belong to?
    #[inline]
    pub fn block_of(&self, p: usize) -> usize {
        if p < self.n_data {
            p % self.blocks
        } else {
            (p - self.n_data) % self.blocks
        }
    }
    /// Number of data codewords of block b.
    #[inline]
    pub fn block_data_len(&self, b: usize) -> usize {
        (self.n_data + self.blocks - 1 - b) / self.blocks
    }
    #[inline]
    pub fn block_len(&self, b: usize) -> usize {
        self.block_data_len(b) + self.k
    }
    /// Positions (in the full vector) of block b, highest polynomial degree first:
    /// strided data codewords, then strided EC codewords.
    pub fn block_positions(&self, b: usize) -> Vec<usize> {
        let mut v: Vec<usize> = (b..self.n_data).step_by(self.blocks).collect();
        v.extend((0..self.k).map(|j| self.n_data + b + j * self.blocks));
        v
    }
    pub fn is_ec(&self, p: usize) -> bool {
        p >= self.n_data
    }
    pub fn has_fixed_corner(&self) -> bool {
        matches!((self.rows, self.cols), (12, 12) | (16, 16) | (20, 20) | (24, 24))
    }
    pub fn dims_label(&self) -> String {
        format!("{}x{}", self.rows, self.cols)
    }
}

pub fn find_by_dims(rows: usize, cols: usize) -> Option<&'static SizeInfo> {
    SIZES.iter().find(|s| s.rows == rows && s.cols == cols)
}

pub fn find_by_size(size: SymbolSize) -> Option<&'static SizeInfo> {
    SIZES.iter().find(|s| s.size == size)
}

/// Fixed-pattern template from the standard's geometry: Some(dark?) for every finder,
/// clock-track, alignment and fixed-corner module, None for data modules.
pub fn fixed_template(s: &SizeInfo) -> Vec<Option<bool>> {
    let (h, w) = (s.rows, s.cols);
    let rh = h / s.reg_rows;
    let rw = w / s.reg_cols;
    let mut t: Vec<Option<bool>> = vec![None; h * w];
    for rr in 0..s.reg_rows {
        for rc in 0..s.reg_cols {
            let r0 = rr * rh;
            let c0 = rc * rw;
            // top row: alternating, dark at c0; right column: alternating, dark in the bottom row
            for c in 0..rw {
                t[r0 * w + c0 + c] = Some(c % 2 == 0);
            }
            for r in 0..rh {
                // rh is even: bottom row index rh-1 is odd => dark on odd r
                t[(r0 + r) * w + c0 + rw - 1] = Some(r % 2 == 1);
            }
            // left column solid dark, bottom row solid dark (drawn last: the L wins at the corners)
            for r in 0..rh {
                t[(r0 + r) * w + c0] = Some(true);
            }
            for c in 0..rw {
                t[(r0 + rh - 1) * w + c0 + c] = Some(true);
            }
        }
    }
    if s.has_fixed_corner() {
        t[(h - 3) * w + (w - 3)] = Some(true);
        t[(h - 2) * w + (w - 2)] = Some(true);
        t[(h - 3) * w + (w - 2)] = Some(false);
        t[(h - 2) * w + (w - 3)] = Some(false);
    }
    t
}

/// Tag type for rendering a MatrixMap whose data modules carry (codeword, bit) identity.
/// 0 = LOW, 1 = HIGH, otherwise 2 + 8*codeword + bit (bit 0 = most significant).
#[derive(Clone, Copy, PartialEq, Eq, Debug)]
pub struct Tag(pub u32);

impl Bit for Tag {
    const LOW: Tag = Tag(0);
    const HIGH: Tag = Tag(1);
}

/// What each pixel of a rendered symbol is, according to the crate's own traversal
/// (`MatrixMap::<Tag>::traverse_mut` + `bitmap()`).
#[derive(Clone, Copy, PartialEq, Eq, Debug)]
pub enum PixelRole {
    /// not reached by the codeword traversal (finder, clock, alignment, fixed corner)
    Fixed(bool),
    /// bit `bit` (0 = MSB) of codeword `cw`
    Data { cw: u32, bit: u8 },
}

pub struct SizeMap {
    /// per pixel
    pub roles: Vec<PixelRole>,
    /// per codeword: the 8 pixel indices, MSB first
    pub cw_pixels: Vec<[u32; 8]>,
    /// pixel indices that are data modules according to the independent template
    pub template_data_pixels: Vec<u32>,
    /// pixel indices that are fixed modules according to the independent template
    pub template_fixed_pixels: Vec<u32>,
    pub template: Vec<Option<bool>>,
    /// template and crate traversal agree on which pixels are data modules
    pub roles_agree_with_template: bool,
    /// parsing the Tag rendering gives back the same Tag matrix and the right size (generic bit type round trip)
    pub tag_roundtrip_ok: bool,
    pub width: usize,
    /// lazily: does the parser accept an array of the generic bit type in which one fixed module holds a value
    /// that is neither LOW nor HIGH (and then fail to re-render it)? Some(description) if so.
    pub third_value_check: std::sync::OnceLock<Option<String>>,
    tags: Vec<Tag>,
}

impl SizeMap {
    /// "For any pixel array whatsoever": an array of a bit type with more than two values, equal to a valid
    /// rendering except for ONE fixed module holding a third value, for every fixed module of the size.
    pub fn third_value(&self, s: &SizeInfo) -> &Option<String> {
        self.third_value_check.get_or_init(|| {
            let third = Tag(0xFFFF_FFF0);
            let mut arr = self.tags.clone();
            for px in &self.template_fixed_pixels {
                let i = *px as usize;
                let keep = arr[i];
                arr[i] = third;
                if let Ok((m, _)) = MatrixMap::<Tag>::try_from_bits(&arr, self.width) {
                    if m.bitmap().bits() != &arr[..] {
                        return Some(format!(
                            "{}: an array whose fixed module at row {} col {} holds a value that is neither LOW nor HIGH was accepted, and re-rendering does not reproduce it",
                            s.name,
                            i / self.width,
                            i % self.width
                        ));
                    }
                }
                arr[i] = keep;
            }
            // the further value on MANY fixed modules at once: a whole track; the light modules of a track; its dark
            // modules; every light fixed module of the symbol; every dark one (a reader that reports all modules of
            // one kind as "undecided")
            let mut sets: Vec<Vec<usize>> = Vec::new();
            for track in fixed_tracks(s) {
                let t: Vec<usize> = track.iter().map(|p| *p as usize).collect();
                // the whole track and the track without its end modules (which it shares with the crossing tracks)
                let inner: Vec<usize> = if t.len() > 2 { t[1..t.len() - 1].to_vec() } else { Vec::new() };
                for part in [&t, &inner] {
                    sets.push(part.iter().copied().filter(|i| self.template[*i] == Some(false)).collect());
                    sets.push(part.iter().copied().filter(|i| self.template[*i] == Some(true)).collect());
                    sets.push(part.to_vec());
                }
            }
            // every non-empty subset of the fixed 2x2 corner (where the size has one)
            if s.has_fixed_corner() {
                let (h, w) = (s.rows, s.cols);
                let corner = [(h - 3) * w + (w - 3), (h - 3) * w + (w - 2), (h - 2) * w + (w - 3), (h - 2) * w + (w - 2)];
                for mask in 1u32..16 {
                    sets.push((0..4).filter(|b| mask & (1 << b) != 0).map(|b| corner[b]).collect());
                }
            }
            sets.push((0..self.template.len()).filter(|i| self.template[*i] == Some(false)).collect());
            sets.push((0..self.template.len()).filter(|i| self.template[*i] == Some(true)).collect());
            for set in sets {
                if set.is_empty() {
                    continue;
                }
                let mut arr2 = self.tags.clone();
                for i in &set {
                    arr2[*i] = third;
                }
                if let Ok((m, _)) = MatrixMap::<Tag>::try_from_bits(&arr2, self.width) {
                    let bm = m.bitmap();
                    let out = bm.bits();
                    // accepted: re-rendering must reproduce the array, AND what is rendered from the parsed content
                    // must show the fixed pattern the standard prescribes (the forward clause, for this content)
                    let fixed_ok = out.len() == self.template.len()
                        && self.template.iter().zip(out.iter()).all(|(t, o)| match t {
                            Some(true) => *o == Tag::HIGH,
                            Some(false) => *o == Tag::LOW,
                            None => true,
                        });
                    if out != &arr2[..] || !fixed_ok {
                        let i = set[0];
                        return Some(format!(
                            "{}: an array in which {} fixed modules (the first at row {} col {}) hold a value that is neither LOW nor HIGH was accepted, and re-rendering does not reproduce it or does not show the standard's fixed pattern",
                            s.name,
                            set.len(),
                            i / self.width,
                            i % self.width
                        ));
                    }
                }
            }
            None
        })
    }
}


/// Build the pixel map of a size. Runs crate code (`MatrixMap::<Tag>`); the caller guards it.
pub fn build_size_map(s: &SizeInfo) -> SizeMap {
    let template = fixed_template(s);
    let mut m = MatrixMap::<Tag>::new(s.size);
    m.traverse_mut(|idx, bits| {
        for (b, bit) in bits.into_iter().enumerate() {
            *bit = Tag(2 + 8 * idx as u32 + b as u32);
        }
    });
    m.write_padding();
    let bm = m.bitmap();
    let width = bm.width();
    let tags = bm.bits();
    let n_cw = tags.iter().filter(|t| t.0 >= 2).count() / 8;
    let mut cw_pixels = vec![[u32::MAX; 8]; n_cw.max(s.n_total())];
    let mut roles = Vec::with_capacity(tags.len());
    for (px, t) in tags.iter().enumerate() {
        if t.0 >= 2 {
            let cw = (t.0 - 2) / 8;
            let bit = ((t.0 - 2) % 8) as u8;
            if (cw as usize) < cw_pixels.len() {
                cw_pixels[cw as usize][bit as usize] = px as u32;
            }
            roles.push(PixelRole::Data { cw, bit });
        } else {
            roles.push(PixelRole::Fixed(t.0 == 1));
        }
    }
    let mut agree = tags.len() == template.len() && width == s.cols;
    if agree {
        for (r, t) in roles.iter().zip(template.iter()) {
            match (r, t) {
                (PixelRole::Fixed(a), Some(b)) if a == b => {}
                (PixelRole::Data { .. }, None) => {}
                _ => {
                    agree = false;
                    break;
                }
            }
        }
    }
    if cw_pixels.iter().take(s.n_total()).any(|p| p.contains(&u32::MAX)) {
        agree = false;
    }
    let tag_roundtrip_ok = match MatrixMap::<Tag>::try_from_bits(tags, width) {
        Ok((m2, sz)) => m2 == m && sz == s.size && m2.bitmap().bits() == tags,
        Err(_) => false,
    };
    let template_data_pixels = template
        .iter()
        .enumerate()
        .filter(|(_, t)| t.is_none())
        .map(|(i, _)| i as u32)
        .collect();
    let template_fixed_pixels = template
        .iter()
        .enumerate()
        .filter(|(_, t)| t.is_some())
        .map(|(i, _)| i as u32)
        .collect();
    SizeMap {
        roles,
        cw_pixels,
        template_data_pixels,
        template_fixed_pixels,
        template,
        roles_agree_with_template: agree,
        tag_roundtrip_ok,
        width,
        third_value_check: std::sync::OnceLock::new(),
        tags: tags.to_vec(),
    }
}

/// The fixed-pattern tracks of a symbol: for every region its top row (clock), bottom row (solid),
/// left column (solid) and right column (clock), as lists of pixel indices in drawing order.
pub fn fixed_tracks(s: &SizeInfo) -> Vec<Vec<u32>> {
    let (h, w) = (s.rows, s.cols);
    let rh = h / s.reg_rows;
    let rw = w / s.reg_cols;
    let mut out = Vec::new();
    for rr in 0..s.reg_rows {
        for rc in 0..s.reg_cols {
            let r0 = rr * rh;
            let c0 = rc * rw;
            out.push((0..rw).map(|c| (r0 * w + c0 + c) as u32).collect());
            out.push((0..rw).map(|c| ((r0 + rh - 1) * w + c0 + c) as u32).collect());
            out.push((0..rh).map(|r| ((r0 + r) * w + c0) as u32).collect());
            out.push((0..rh).map(|r| ((r0 + r) * w + c0 + rw - 1) as u32).collect());
        }
    }
    // whole-symbol tracks (a clock row / solid bar across all regions)
    for rr in 0..s.reg_rows {
        out.push((0..w).map(|c| (rr * rh * w + c) as u32).collect());
        out.push((0..w).map(|c| (((rr + 1) * rh - 1) * w + c) as u32).collect());
    }
    for rc in 0..s.reg_cols {
        out.push((0..h).map(|r| (r * w + rc * rw) as u32).collect());
        out.push((0..h).map(|r| (r * w + (rc + 1) * rw - 1) as u32).collect());
    }
    out
}

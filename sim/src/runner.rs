//! Batch execution: worker threads pull run indices, results are merged independent of
//! worker count; violations are minimised and written as replay files.

use std::collections::{BTreeMap, HashSet};
use std::sync::atomic::{AtomicBool, AtomicU64, Ordering};
use std::sync::{Arc, Mutex};
use std::time::{Duration, Instant};

use crate::catalogue::{N_SIZES, SIZES};
use crate::exec::{self, execute, Ctx, DataClass, EcClass, ExecOpts, Outcome, ParseClass, PROBE_NAMES};
use crate::gen;
use crate::json::J;
use crate::rng::{fnv64, mix64, run_seed};
use crate::trace::{Fault, Op, Producer, Stage, Trace, KINDS};

pub const CHUNK: u64 = 2048;

/// Where the traces of a phase come from.
pub enum Source {
    /// seeded random runs of a property
    Random { prop: String, seed: u64 },
    /// systematic enumeration (explicit traces as a function of the index)
    Sweep { name: String, prop: String, make: Box<dyn Fn(&Ctx, u64) -> Trace + Send + Sync> },
}

impl Source {
    pub fn trace(&self, ctx: &Ctx, i: u64) -> (u64, Trace) {
        match self {
            Source::Random { prop, seed } => {
                let rs = run_seed(*seed, gen::prop_tag(prop), i);
                (rs, gen::generate(ctx, prop, rs, i))
            }
            Source::Sweep { make, .. } => (i, make(ctx, i)),
        }
    }
    pub fn prop(&self) -> &str {
        match self {
            Source::Random { prop, .. } => prop,
            Source::Sweep { prop, .. } => prop,
        }
    }
    pub fn name(&self) -> String {
        match self {
            Source::Random { .. } => "random".to_string(),
            Source::Sweep { name, .. } => name.clone(),
        }
    }
}

pub struct Phase {
    pub source: Source,
    pub runs: u64,
    /// stop handing out new chunks after this much wall time (0 = no cap)
    pub wall_cap_s: u64,
}

#[derive(Clone)]
pub struct FoundViolation {
    pub phase: String,
    pub index: u64,
    pub run_seed: u64,
    pub class: String,
    pub detail: String,
    pub trace: Trace,
}

pub struct Stats {
    pub runs: u64,
    pub transmissions: u64,
    pub refused: u64,
    pub producer_panics: u64,
    pub producer_panic_sites: BTreeMap<String, u64>,
    pub control_failures: u64,
    pub runs_with_fault_fired: u64,
    pub runs_fault_free: u64,
    pub premise_c03_runs: u64,
    pub fired_per_kind: Vec<u64>,
    pub configured_per_kind: Vec<u64>,
    pub probes: Vec<u64>,
    pub parse: BTreeMap<String, u64>,
    pub ec: BTreeMap<String, u64>,
    pub data: BTreeMap<String, u64>,
    pub strc: BTreeMap<String, u64>,
    pub per_size_runs: Vec<u64>,
    /// per size: bit0 data region hit, bit1 EC region hit, bit2 block 0, bit3 block>=1
    pub per_size_regions: Vec<u8>,
    pub producer_kinds: [u64; 3],
    pub stage_runs: [u64; 3],
    pub sigs: HashSet<u64>,
    pub sigs_nontrivial: HashSet<u64>,
    pub digest: u64,
    pub other_events: BTreeMap<String, u64>,
    pub other_prop_violations: BTreeMap<String, u64>,
    pub violations_total: u64,
    pub violation_classes: BTreeMap<String, u64>,
    pub found: Vec<FoundViolation>,
    pub samples: Vec<J>,
    pub log: Vec<(u64, String)>,
    pub phase_runs: BTreeMap<String, u64>,
    /// wall-clock of the slowest single run (generation + execution), for the watchdog margin; not part of any digest
    pub slowest_run_us: u64,
    pub slowest_run_desc: String,
}

impl Stats {
    pub fn new() -> Stats {
        Stats {
            runs: 0,
            transmissions: 0,
            refused: 0,
            producer_panics: 0,
            producer_panic_sites: BTreeMap::new(),
            control_failures: 0,
            runs_with_fault_fired: 0,
            runs_fault_free: 0,
            premise_c03_runs: 0,
            fired_per_kind: vec![0; KINDS.len()],
            configured_per_kind: vec![0; KINDS.len()],
            probes: vec![0; PROBE_NAMES.len()],
            parse: BTreeMap::new(),
            ec: BTreeMap::new(),
            data: BTreeMap::new(),
            strc: BTreeMap::new(),
            per_size_runs: vec![0; N_SIZES],
            per_size_regions: vec![0; N_SIZES],
            producer_kinds: [0; 3],
            stage_runs: [0; 3],
            sigs: HashSet::new(),
            sigs_nontrivial: HashSet::new(),
            digest: 0,
            other_events: BTreeMap::new(),
            other_prop_violations: BTreeMap::new(),
            violations_total: 0,
            violation_classes: BTreeMap::new(),
            found: Vec::new(),
            samples: Vec::new(),
            log: Vec::new(),
            phase_runs: BTreeMap::new(),
            slowest_run_us: 0,
            slowest_run_desc: String::new(),
        }
    }

    pub fn merge(&mut self, o: Stats) {
        self.runs += o.runs;
        self.transmissions += o.transmissions;
        self.refused += o.refused;
        self.producer_panics += o.producer_panics;
        for (k, v) in o.producer_panic_sites {
            *self.producer_panic_sites.entry(k).or_insert(0) += v;
        }
        self.control_failures += o.control_failures;
        self.runs_with_fault_fired += o.runs_with_fault_fired;
        self.runs_fault_free += o.runs_fault_free;
        self.premise_c03_runs += o.premise_c03_runs;
        for (a, b) in self.fired_per_kind.iter_mut().zip(o.fired_per_kind) {
            *a += b;
        }
        for (a, b) in self.configured_per_kind.iter_mut().zip(o.configured_per_kind) {
            *a += b;
        }
        for (a, b) in self.probes.iter_mut().zip(o.probes) {
            *a += b;
        }
        for (dst, src) in [
            (&mut self.parse, o.parse),
            (&mut self.ec, o.ec),
            (&mut self.data, o.data),
            (&mut self.strc, o.strc),
            (&mut self.other_events, o.other_events),
            (&mut self.other_prop_violations, o.other_prop_violations),
            (&mut self.violation_classes, o.violation_classes),
            (&mut self.phase_runs, o.phase_runs),
        ] {
            for (k, v) in src {
                *dst.entry(k).or_insert(0) += v;
            }
        }
        for (a, b) in self.per_size_runs.iter_mut().zip(o.per_size_runs) {
            *a += b;
        }
        for (a, b) in self.per_size_regions.iter_mut().zip(o.per_size_regions) {
            *a |= b;
        }
        for i in 0..3 {
            self.producer_kinds[i] += o.producer_kinds[i];
            self.stage_runs[i] += o.stage_runs[i];
        }
        self.sigs.extend(o.sigs);
        self.sigs_nontrivial.extend(o.sigs_nontrivial);
        self.digest = self.digest.wrapping_add(o.digest);
        self.violations_total += o.violations_total;
        self.found.extend(o.found);
        self.samples.extend(o.samples);
        self.log.extend(o.log);
        if o.slowest_run_us > self.slowest_run_us {
            self.slowest_run_us = o.slowest_run_us;
            self.slowest_run_desc = o.slowest_run_desc;
        }
    }
}

fn outcome_sig(trace: &Trace, o: &Outcome, own_classes: &[String]) -> u64 {
    let mut buf: Vec<u8> = Vec::with_capacity(64);
    buf.push(if crate::PROFILE == "checked" { 1 } else { 2 });
    buf.push(o.size.map(|s| s as u8).unwrap_or(255));
    buf.push(o.producer_kind);
    let mut stages = 0u8;
    for (f, fired) in trace.faults.iter().zip(o.fired.iter()) {
        if *fired {
            stages |= match f.op.stage() {
                Stage::S1 => 1,
                Stage::S2 => 2,
                Stage::S4 => 4,
            };
        }
    }
    buf.push(stages);
    buf.extend_from_slice(&o.fired_kinds.to_le_bytes());
    buf.extend_from_slice(&o.block_damage);
    buf.push(0xFE);
    buf.push(o.regions);
    buf.push(o.parse as u8);
    buf.push(o.ec as u8);
    buf.push(o.data as u8);
    buf.push(o.strc as u8);
    for c in own_classes {
        buf.extend_from_slice(c.as_bytes());
        buf.push(0);
    }
    fnv64(&buf)
}

fn outcome_line(o: &Outcome) -> String {
    format!(
        "size={} parse={:?} ec={:?} data={:?} str={:?} dmg={:?} probes={:x} cf={} viol=[{}]",
        o.size.map(|s| SIZES[s].name).unwrap_or("-"),
        o.parse,
        o.ec,
        o.data,
        o.strc,
        o.block_damage,
        o.probes,
        o.control_failure as u8,
        o.violations
            .iter()
            .map(|v| format!("{}:{}", v.prop, v.class))
            .collect::<Vec<_>>()
            .join(",")
    )
}

pub fn exec_opts_for(prop: &str) -> ExecOpts {
    ExecOpts { c08: prop == "C08", data_after_ec_failure: prop == "C05", data_stage: prop == "C05" || prop == "C03", codeword_only: false }
}

fn summarize_faults(t: &Trace, fired: &[bool]) -> J {
    // compact description for evidence samples: per kind the number of primitive faults that fired
    let mut m: BTreeMap<&str, (u64, u64)> = BTreeMap::new();
    for (f, fi) in t.faults.iter().zip(fired.iter()) {
        let e = m.entry(KINDS[f.kind as usize]).or_insert((0, 0));
        e.0 += 1;
        if *fi {
            e.1 += 1;
        }
    }
    J::Obj(
        m.into_iter()
            .map(|(k, (c, f))| (k.to_string(), J::s(&format!("{} configured, {} fired", c, f))))
            .collect(),
    )
}

fn producer_summary(t: &Trace) -> J {
    match &t.producer {
        Producer::Raw { size, data } => J::obj()
            .with("kind", J::s("raw"))
            .with("size", J::s(SIZES[*size].name))
            .with("data_fnv", J::s(&format!("{:016x}", fnv64(data)))),
        Producer::Msg { msg, modes, macros, fnc1, eci, .. } => J::obj()
            .with("kind", J::s("msg"))
            .with("msg_len", J::i(msg.len()))
            .with("msg_head_hex", J::Str(crate::json::hex(&msg[..msg.len().min(16)])))
            .with("modes", J::i(*modes as usize))
            .with("macros", J::Bool(*macros))
            .with("fnc1", J::Bool(*fnc1))
            .with("eci", eci.map(|e| J::i(e as usize)).unwrap_or(J::Null)),
        Producer::Stream { data } => J::obj()
            .with("kind", J::s("stream"))
            .with("data_hex", J::Str(crate::json::hex(&data[..data.len().min(24)]))),
    }
}

pub struct RunCfg {
    pub workers: usize,
    pub keep_log: bool,
    pub hang_ms: u64,
    pub max_found: usize,
    pub stop_on_violation: bool,
    /// directory for breadcrumbs: every worker records (phase, run index) in its own file before it executes a run,
    /// so that the run that killed the process can be identified afterwards
    pub crumbs: Option<String>,
}

struct Slot {
    /// (phase_idx << 48 | run index + 1), 0 = idle
    current: AtomicU64,
    started_ms: AtomicU64,
}

pub struct HangReport {
    pub phase: String,
    pub index: u64,
    pub run_seed: u64,
    pub trace: Trace,
}

/// Run all phases. Returns merged stats (violations included, not yet minimised).
pub fn run_phases(ctx: &Arc<Ctx>, phases: Vec<Phase>, cfg: &RunCfg, own_prop: &str) -> (Stats, Option<HangReport>) {
    let phases = Arc::new(phases);
    let mut total = Stats::new();
    let t0 = Instant::now();
    let mut hang: Option<HangReport> = None;

    for (pi, phase) in phases.iter().enumerate() {
        let next = Arc::new(AtomicU64::new(0));
        let stop_chunk = Arc::new(AtomicU64::new(u64::MAX));
        let slots: Arc<Vec<Slot>> = Arc::new(
            (0..cfg.workers)
                .map(|_| Slot { current: AtomicU64::new(0), started_ms: AtomicU64::new(0) })
                .collect(),
        );
        let done = Arc::new(AtomicBool::new(false));
        let hang_found: Arc<Mutex<Option<HangReport>>> = Arc::new(Mutex::new(None));
        let phase_start = Instant::now();
        let capped = Arc::new(AtomicBool::new(false));

        let mut handles = Vec::new();
        for wi in 0..cfg.workers {
            let ctx = ctx.clone();
            let phases = phases.clone();
            let next = next.clone();
            let stop_chunk = stop_chunk.clone();
            let slots = slots.clone();
            let own_prop = own_prop.to_string();
            let capped = capped.clone();
            let keep_log = cfg.keep_log;
            let max_found = cfg.max_found;
            let stop_on_violation = cfg.stop_on_violation;
            let crumb_file = cfg.crumbs.as_ref().and_then(|d| {
                let _ = std::fs::create_dir_all(d);
                std::fs::OpenOptions::new().create(true).write(true).truncate(false).open(format!("{}/w{}", d, wi)).ok()
            });
            handles.push(std::thread::spawn(move || {
                let phase = &phases[pi];
                let mut opts = exec_opts_for(phase.source.prop());
                opts.codeword_only = phase.source.name().contains("codeword_stage_only");
                let mut st = Stats::new();
                let pname = phase.source.name();
                loop {
                    let i = next.fetch_add(1, Ordering::Relaxed);
                    if i >= phase.runs {
                        break;
                    }
                    let chunk = i / CHUNK;
                    if chunk > stop_chunk.load(Ordering::Relaxed) {
                        break;
                    }
                    if phase.wall_cap_s > 0 && i % CHUNK == 0 && chunk > 0 && phase_start.elapsed().as_secs() >= phase.wall_cap_s {
                        // wall cap (safety net): finish the chunks already started, start no new one
                        stop_chunk.fetch_min(chunk - 1, Ordering::Relaxed);
                        capped.store(true, Ordering::Relaxed);
                        break;
                    }
                    slots[wi].started_ms.store(t0.elapsed().as_millis() as u64, Ordering::Relaxed);
                    slots[wi].current.store(i + 1, Ordering::Release);
                    let t_run = Instant::now();
                    if let Some(f) = &crumb_file {
                        use std::os::unix::fs::FileExt;
                        let _ = f.write_all_at(format!("{:>6} {:>20}\n", pi, i).as_bytes(), 0);
                    }
                    let (rs, trace) = phase.source.trace(&ctx, i);
                    let o = execute(&ctx, &trace, &opts);
                    slots[wi].current.store(0, Ordering::Release);
                    let us = t_run.elapsed().as_micros() as u64;
                    if us > st.slowest_run_us {
                        st.slowest_run_us = us;
                        st.slowest_run_desc = format!("{} run {} ({})", pname, i, o.size.map(|s| SIZES[s].name).unwrap_or("-"));
                    }
                    record(&mut st, &pname, i, rs, &trace, &o, &own_prop, keep_log, max_found);
                    if stop_on_violation && o.violations.iter().any(|v| v.prop == own_prop) {
                        stop_chunk.fetch_min(chunk, Ordering::Relaxed);
                    }
                }
                st
            }));
        }

        // watchdog (the only real clock in the harness; it can only abort, never influence a choice).
        // A run that exceeds the limit is re-executed once in isolation by the watchdog itself; only if
        // that also exceeds the limit is it a hang. A transient stall (descheduled worker on a loaded
        // machine) is recorded and otherwise ignored.
        let stalls = Arc::new(AtomicU64::new(0));
        let wd = {
            let slots = slots.clone();
            let done = done.clone();
            let hang_found = hang_found.clone();
            let hang_ms = cfg.hang_ms;
            let ctx = ctx.clone();
            let phases = phases.clone();
            let stalls = stalls.clone();
            std::thread::spawn(move || {
                let mut cleared: Vec<u64> = Vec::new();
                while !done.load(Ordering::Relaxed) {
                    std::thread::sleep(Duration::from_millis(200));
                    let now = t0.elapsed().as_millis() as u64;
                    for s in slots.iter() {
                        let cur = s.current.load(Ordering::Acquire);
                        if cur != 0 && !cleared.contains(&cur) {
                            let st = s.started_ms.load(Ordering::Relaxed);
                            if now.saturating_sub(st) > hang_ms && s.current.load(Ordering::Acquire) == cur {
                                let idx = cur - 1;
                                let (rs, trace) = phases[pi].source.trace(&ctx, idx);
                                let keep = trace.clone();
                                let ctx2 = ctx.clone();
                                let (tx, rx) = std::sync::mpsc::channel();
                                std::thread::spawn(move || {
                                    let o = execute(&ctx2, &trace, &exec_opts_for(&trace.prop));
                                    let _ = tx.send(o.violations.len());
                                });
                                match rx.recv_timeout(Duration::from_millis(hang_ms)) {
                                    Ok(_) => {
                                        // finished in isolation: the worker was merely starved
                                        cleared.push(cur);
                                        stalls.fetch_add(1, Ordering::Relaxed);
                                    }
                                    Err(_) => {
                                        *hang_found.lock().unwrap() = Some(HangReport {
                                            phase: phases[pi].source.name(),
                                            index: idx,
                                            run_seed: rs,
                                            trace: keep,
                                        });
                                        return;
                                    }
                                }
                            }
                        }
                    }
                }
            })
        };

        // wait for workers, but give up on them if the watchdog fires
        let mut results = Vec::new();
        let mut pending: Vec<Option<std::thread::JoinHandle<Stats>>> = handles.into_iter().map(Some).collect();
        loop {
            let mut all_done = true;
            for h in pending.iter_mut() {
                if let Some(handle) = h {
                    if handle.is_finished() {
                        results.push(h.take().unwrap().join().expect("worker thread died"));
                    } else {
                        all_done = false;
                    }
                }
            }
            if all_done {
                break;
            }
            if hang_found.lock().unwrap().is_some() {
                break;
            }
            std::thread::sleep(Duration::from_millis(5));
        }
        done.store(true, Ordering::Relaxed);
        let _ = wd.join();
        let hung = hang_found.lock().unwrap().take();
        for r in results {
            total.merge(r);
        }
        if let Some(h) = hung {
            hang = Some(h);
            break;
        }
        // a violation of the property under check ends the batch after the phase
        let n_stalls = stalls.load(Ordering::Relaxed);
        if n_stalls > 0 {
            *total.other_events.entry("transient_worker_stall_cleared_by_isolated_rerun".to_string()).or_insert(0) += n_stalls;
        }
        if capped.load(Ordering::Relaxed) {
            *total.other_events.entry(format!("wall_cap_reached_in_phase_{}", phase.source.name())).or_insert(0) += 1;
        }
        if cfg.stop_on_violation && !total.found.is_empty() {
            break;
        }
    }
    total.found.sort_by(|a, b| (a.phase.clone(), a.index).cmp(&(b.phase.clone(), b.index)));
    total.log.sort();
    (total, hang)
}

#[allow(clippy::too_many_arguments)]
fn record(
    st: &mut Stats,
    pname: &str,
    i: u64,
    rs: u64,
    trace: &Trace,
    o: &Outcome,
    own_prop: &str,
    keep_log: bool,
    max_found: usize,
) {
    st.runs += 1;
    *st.phase_runs.entry(pname.to_string()).or_insert(0) += 1;
    if o.producer_refused {
        st.refused += 1;
    }
    if let Some(site) = &o.producer_panic {
        st.producer_panics += 1;
        *st.producer_panic_sites.entry(site.clone()).or_insert(0) += 1;
    }
    if o.control_failure {
        st.control_failures += 1;
    }
    if !o.producer_refused && o.producer_panic.is_none() {
        st.transmissions += 1;
    }
    // a fabricated input (no producer at all) is the medium's fault at density 1
    let any_fired = o.fired.iter().any(|f| *f) || o.producer_kind == 2;
    if any_fired {
        st.runs_with_fault_fired += 1;
    } else {
        st.runs_fault_free += 1;
    }
    if o.premise_c03 {
        st.premise_c03_runs += 1;
    }
    for (f, fired) in trace.faults.iter().zip(o.fired.iter()) {
        st.configured_per_kind[f.kind as usize] += 1;
        if *fired {
            st.fired_per_kind[f.kind as usize] += 1;
        }
    }
    for p in 0..PROBE_NAMES.len() {
        if o.probes & (1 << p) != 0 {
            st.probes[p] += 1;
        }
    }
    *st.parse.entry(format!("{:?}", o.parse)).or_insert(0) += 1;
    *st.ec.entry(format!("{:?}", o.ec)).or_insert(0) += 1;
    *st.data.entry(format!("{:?}", o.data)).or_insert(0) += 1;
    *st.strc.entry(format!("{:?}", o.strc)).or_insert(0) += 1;
    if let Some(s) = o.size {
        st.per_size_runs[s] += 1;
        st.per_size_regions[s] |= o.regions;
    }
    st.producer_kinds[o.producer_kind as usize] += 1;
    let mut stages = [false; 3];
    for (f, fired) in trace.faults.iter().zip(o.fired.iter()) {
        if *fired {
            stages[match f.op.stage() {
                Stage::S1 => 0,
                Stage::S2 => 1,
                Stage::S4 => 2,
            }] = true;
        }
    }
    for k in 0..3 {
        if stages[k] {
            st.stage_runs[k] += 1;
        }
    }
    for e in &o.other_events {
        *st.other_events.entry(e.clone()).or_insert(0) += 1;
    }
    let mut own_classes: Vec<String> = Vec::new();
    for v in &o.violations {
        if v.prop == own_prop {
            if !own_classes.contains(&v.class) {
                own_classes.push(v.class.clone());
            }
        } else {
            *st.other_prop_violations.entry(format!("{}:{}", v.prop, v.class)).or_insert(0) += 1;
        }
    }
    if !own_classes.is_empty() {
        st.violations_total += 1;
        // one entry per run: its first violation class of the property under check
        let v = o.violations.iter().find(|v| v.prop == own_prop).unwrap();
        *st.violation_classes.entry(v.class.clone()).or_insert(0) += 1;
        if st.found.len() < max_found {
            st.found.push(FoundViolation {
                phase: pname.to_string(),
                index: i,
                run_seed: rs,
                class: v.class.clone(),
                detail: v.detail.clone(),
                trace: trace.clone(),
            });
        }
    }
    let sig = outcome_sig(trace, o, &own_classes);
    st.sigs.insert(sig);
    if any_fired {
        st.sigs_nontrivial.insert(sig);
    }
    let line_hash = mix64(trace.digest() ^ sig.rotate_left(17) ^ mix64(i ^ fnv64(pname.as_bytes())));
    st.digest = st.digest.wrapping_add(line_hash);
    if keep_log {
        st.log.push((
            i,
            format!("{} {} seed={:016x} trace={:016x} {}", pname, i, rs, trace.digest(), outcome_line(o)),
        ));
    }
    // a few actual runs, written out (chosen by index pattern, not by a random draw)
    if (i < 2 || i % 9973 == 0) && st.samples.iter().filter(|x| x.get("phase").and_then(|p| p.as_str()) == Some(pname)).count() < 2 {
        st.samples.push(
            J::obj()
                .with("phase", J::s(pname))
                .with("run_index", J::Int(i as i64))
                .with("run_seed", J::s(&format!("{:016x}", rs)))
                .with("producer", producer_summary(trace))
                .with("faults", summarize_faults(trace, &o.fired))
                .with("outcome", J::s(&outcome_line(o))),
        );
    }
}

// ---------------- minimisation ----------------

pub struct Minimised {
    pub trace: Trace,
    pub executions: usize,
}

fn has_class(ctx: &Ctx, t: &Trace, prop: &str, class: &str) -> bool {
    let o = execute(ctx, t, &exec_opts_for(&t.prop));
    o.violations.iter().any(|v| v.prop == prop && v.class == class)
}

/// ddmin over the primitive fault list, then per-fault and workload simplification,
/// while the same violation class persists.
pub fn minimise(ctx: &Ctx, t: &Trace, prop: &str, class: &str, budget: usize) -> Minimised {
    let mut cur = t.clone();
    let mut execs = 0usize;
    let mut test = |cand: &Trace, execs: &mut usize| -> bool {
        *execs += 1;
        has_class(ctx, cand, prop, class)
    };

    // 1. ddmin over faults
    let mut n = 2usize;
    while cur.faults.len() >= 1 && execs < budget {
        let len = cur.faults.len();
        if n > len {
            n = len;
        }
        let chunk = (len + n - 1) / n;
        let mut reduced = false;
        // try removing each chunk (complement testing)
        let mut start = 0;
        while start < len && execs < budget {
            let end = (start + chunk).min(len);
            let mut cand = cur.clone();
            cand.faults.drain(start..end);
            if test(&cand, &mut execs) {
                cur = cand;
                n = (n - 1).max(2);
                reduced = true;
                break;
            }
            start = end;
        }
        if !reduced {
            if n >= len {
                break;
            }
            n = (2 * n).min(len);
        }
        if cur.faults.is_empty() {
            break;
        }
    }

    // 2. simplify each surviving fault
    let mut idx = 0;
    while idx < cur.faults.len() && execs < budget {
        let f = cur.faults[idx].clone();
        let mut alts: Vec<Op> = Vec::new();
        match &f.op {
            Op::CwXor { pos, mask } => {
                if mask.count_ones() > 1 {
                    for b in 0..8 {
                        if mask & (1 << b) != 0 {
                            alts.push(Op::CwXor { pos: *pos, mask: 1 << b });
                        }
                    }
                    alts.push(Op::CwXor { pos: *pos, mask: 1 });
                }
            }
            Op::SndXor { pos, mask } => {
                if mask.count_ones() > 1 {
                    alts.push(Op::SndXor { pos: *pos, mask: 1 });
                }
            }
            Op::CwSet { pos, val } => {
                if *val != 0 {
                    alts.push(Op::CwSet { pos: *pos, val: 0 });
                }
            }
            Op::SndSet { pos, val } => {
                if *val != 0 {
                    alts.push(Op::SndSet { pos: *pos, val: 0 });
                }
            }
            Op::GeoExtend { bits } => {
                if bits.len() > 1 {
                    alts.push(Op::GeoExtend { bits: vec![false] });
                }
            }
            _ => {}
        }
        for a in alts {
            if execs >= budget {
                break;
            }
            let mut cand = cur.clone();
            cand.faults[idx] = Fault { kind: f.kind, op: a };
            if test(&cand, &mut execs) {
                cur = cand;
                break;
            }
        }
        idx += 1;
    }

    // 3. simplify the workload
    match cur.producer.clone() {
        Producer::Raw { size, data } => {
            if data.iter().any(|b| *b != 0) && execs < budget {
                let mut cand = cur.clone();
                cand.producer = Producer::Raw { size, data: vec![0; data.len()] };
                if test(&cand, &mut execs) {
                    cur = cand;
                }
            }
        }
        Producer::Msg { msg, list, modes, macros, fnc1, eci } => {
            let mut m = msg.clone();
            while m.len() > 1 && execs < budget {
                let mut cand = cur.clone();
                let shorter = m[..m.len() / 2].to_vec();
                cand.producer = Producer::Msg { msg: shorter.clone(), list: list.clone(), modes, macros, fnc1, eci };
                if test(&cand, &mut execs) {
                    cur = cand;
                    m = shorter;
                } else {
                    break;
                }
            }
        }
        Producer::Stream { data } => {
            // halve from the end / from the front while the class persists, then byte by byte
            let mut d = data.clone();
            let mut chunk = d.len() / 2;
            while chunk >= 1 && execs < budget {
                let mut progressed = false;
                if d.len() > chunk {
                    let shorter = d[..d.len() - chunk].to_vec();
                    let mut cand = cur.clone();
                    cand.producer = Producer::Stream { data: shorter.clone() };
                    if test(&cand, &mut execs) {
                        cur = cand;
                        d = shorter;
                        progressed = true;
                    }
                }
                if !progressed && d.len() > chunk {
                    let shorter = d[chunk..].to_vec();
                    let mut cand = cur.clone();
                    cand.producer = Producer::Stream { data: shorter.clone() };
                    if test(&cand, &mut execs) {
                        cur = cand;
                        d = shorter;
                        progressed = true;
                    }
                }
                if !progressed {
                    chunk /= 2;
                }
            }
            while d.len() > 1 && execs < budget {
                let mut cand = cur.clone();
                let shorter = d[..d.len() - 1].to_vec();
                cand.producer = Producer::Stream { data: shorter.clone() };
                if test(&cand, &mut execs) {
                    cur = cand;
                    d = shorter;
                } else {
                    break;
                }
            }
            while d.len() > 1 && execs < budget {
                let mut cand = cur.clone();
                let shorter = d[1..].to_vec();
                cand.producer = Producer::Stream { data: shorter.clone() };
                if test(&cand, &mut execs) {
                    cur = cand;
                    d = shorter;
                } else {
                    break;
                }
            }
        }
    }
    Minimised { trace: cur, executions: execs }
}

pub fn class_counts_json(m: &BTreeMap<String, u64>) -> J {
    J::Obj(m.iter().map(|(k, v)| (k.clone(), J::Int(*v as i64))).collect())
}

pub fn unused(_: ParseClass, _: EcClass, _: DataClass) {
    let _ = exec::producer_kind_name(0);
}

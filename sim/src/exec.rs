//! One transmission = one run: producer (real) -> medium (simulated) -> consumer (real),
//! with the oracles of C03 / C05 / C08 / C09 evaluated on the way.

use std::cell::RefCell;
use std::panic::{catch_unwind, AssertUnwindSafe};

use datamatrix::data::{decode_data, decode_str, DataDecodingError};
use datamatrix::errorcode::{decode_error, encode_error, ErrorDecodingError};
use datamatrix::placement::{BitmapConversionError, MatrixMap};
use datamatrix::{DataMatrix, DataMatrixBuilder, DecodingError, EncodationType, SymbolList};

use crate::catalogue::{self, PixelRole, SizeInfo, SizeMap, N_SIZES, SIZES};
use crate::gf::Gf;
use crate::trace::{apply_s1, apply_s2, apply_s4, ListSpec, Op, Producer, Stage, Trace};

// ---------- panic capture ----------

thread_local! {
    static LAST_PANIC: RefCell<Option<String>> = const { RefCell::new(None) };
}

pub fn install_panic_hook() {
    std::panic::set_hook(Box::new(|info| {
        let loc = info
            .location()
            .map(|l| {
                let f = l.file();
                let f = match f.rfind("/src/") {
                    Some(p) => &f[p + 1..],
                    None => f,
                };
                format!("{}:{}", f, l.line())
            })
            .unwrap_or_else(|| "unknown".to_string());
        let msg = if let Some(s) = info.payload().downcast_ref::<&str>() {
            s.to_string()
        } else if let Some(s) = info.payload().downcast_ref::<String>() {
            s.clone()
        } else {
            String::new()
        };
        let msg: String = msg.chars().take(120).collect();
        LAST_PANIC.with(|p| *p.borrow_mut() = Some(format!("{}|{}", loc, msg)));
    }));
}

#[derive(Clone, Debug)]
pub struct Panicked {
    pub loc: String,
    pub msg: String,
}

/// Run crate code; a panic becomes a value.
pub fn guard<T>(f: impl FnOnce() -> T) -> Result<T, Panicked> {
    match catch_unwind(AssertUnwindSafe(f)) {
        Ok(v) => Ok(v),
        Err(_) => {
            let s = LAST_PANIC
                .with(|p| p.borrow_mut().take())
                .unwrap_or_else(|| "unknown|".to_string());
            let (loc, msg) = s.split_once('|').unwrap_or((&s, ""));
            Err(Panicked { loc: loc.to_string(), msg: msg.to_string() })
        }
    }
}

// ---------- context ----------

pub struct CrateSizeInfo {
    pub n_data: usize,
    pub n_total: usize,
    pub rows: usize,
    pub cols: usize,
    pub ok: bool,
}

pub struct Ctx {
    pub gf: Gf,
    pub maps: Vec<Option<SizeMap>>,
    pub crate_info: Vec<Option<CrateSizeInfo>>,
    /// the simulator's field model reproduces the crate's EC codewords for this size
    pub gf_ok: Vec<bool>,
    /// per size: the generator polynomial the crate's encoder ACTUALLY uses (derived from encode_error of a
    /// unit vector; highest degree first, monic, degree k) and its roots in the field, sorted by discrete log.
    /// Equal to prod_{i=1..k}(x - alpha^i) when the encoder implements the standard's code; used to aim ghost
    /// and aligned faults at whatever cyclic code the crate implements.
    pub enc_gen: Vec<Option<(Vec<u8>, Vec<u8>)>>,
    pub selftest_notes: Vec<String>,
}

impl Ctx {
    pub fn new() -> Ctx {
        let gf = Gf::new();
        let mut maps = Vec::new();
        let mut crate_info = Vec::new();
        let mut gf_ok = Vec::new();
        let mut enc_gen = Vec::new();
        let mut notes = Vec::new();
        for s in SIZES.iter() {
            // what the public API reveals about this size
            let ci = guard(|| {
                DataMatrix::encode(b"", s.size).ok().map(|dm| {
                    let bm = dm.bitmap();
                    CrateSizeInfo {
                        n_data: dm.data_codewords().len(),
                        n_total: dm.codewords().len(),
                        rows: bm.height(),
                        cols: bm.width(),
                        ok: false,
                    }
                })
            })
            .ok()
            .flatten()
            .map(|mut ci| {
                ci.ok = ci.n_data == s.n_data
                    && ci.n_total == s.n_total()
                    && ci.rows == s.rows
                    && ci.cols == s.cols;
                ci
            });
            match &ci {
                Some(ci) if ci.ok => {}
                Some(ci) => notes.push(format!(
                    "catalogue mismatch for {}: crate says data={} total={} {}x{}, standard says data={} total={} {}x{}",
                    s.name, ci.n_data, ci.n_total, ci.rows, ci.cols, s.n_data, s.n_total(), s.rows, s.cols
                )),
                None => notes.push(format!("crate could not produce an empty symbol of size {}", s.name)),
            }
            crate_info.push(ci);
            let map = guard(|| catalogue::build_size_map(s)).ok();
            match &map {
                Some(m) if m.roles_agree_with_template && !m.tag_roundtrip_ok => notes.push(format!("generic bit type round trip of {} fails", s.name)),
                Some(m) if m.roles_agree_with_template => {}
                Some(_) => notes.push(format!("pixel roles of {} disagree with the independent template", s.name)),
                None => notes.push(format!("building the pixel map of {} panicked", s.name)),
            }
            maps.push(map);
            // field model self-test: the crate's EC output must have zero syndromes under the model
            let ok = guard(|| {
                let mut good = true;
                for variant in 0..3u8 {
                    let data: Vec<u8> = (0..s.n_data)
                        .map(|i| match variant {
                            0 => (i as u8).wrapping_mul(37).wrapping_add(11),
                            1 => 0xFF,
                            _ => (i as u8) ^ 0x5A,
                        })
                        .collect();
                    let ec = encode_error(&data, s.size);
                    if ec.len() != s.n_ec() {
                        good = false;
                        break;
                    }
                    let mut word = data.clone();
                    word.extend_from_slice(&ec);
                    for b in 0..s.blocks {
                        let poly: Vec<u8> = s.block_positions(b).iter().map(|p| word[*p]).collect();
                        if gf.syndromes(&poly, s.k).iter().any(|x| *x != 0) {
                            good = false;
                        }
                    }
                }
                good
            })
            .unwrap_or(false);
            if !ok {
                notes.push(format!("field model disagrees with encode_error for {}: algebraic fault kinds disabled there", s.name));
            }
            gf_ok.push(ok);
            // the encoder's own generator polynomial, from a unit data vector in block 0
            let eg = guard(|| {
                let mut data = vec![0u8; s.n_data];
                let last = s.blocks * (s.block_data_len(0) - 1);
                data[last] = 1;
                let ec = encode_error(&data, s.size);
                if ec.len() != s.n_ec() {
                    return None;
                }
                let mut g = vec![1u8];
                for j in 0..s.k {
                    g.push(ec[j * s.blocks]);
                }
                let mut roots: Vec<u8> = (1..=255u16).map(|x| x as u8).filter(|x| gf.eval(&g, *x) == 0).collect();
                roots.sort_by_key(|x| gf.log[*x as usize]);
                Some((g, roots))
            })
            .ok()
            .flatten();
            if let Some((_, roots)) = &eg {
                if roots.len() != s.k {
                    notes.push(format!("the encoder's generator polynomial for {} has {} distinct roots in the field, expected {}", s.name, roots.len(), s.k));
                }
            }
            enc_gen.push(eg);
        }
        Ctx { gf, maps, crate_info, gf_ok, enc_gen, selftest_notes: notes }
    }
}

// ---------- outcome ----------

#[derive(Clone, Debug)]
pub struct Violation {
    pub prop: &'static str,
    pub class: String,
    pub detail: String,
}

#[derive(Clone, Copy, Debug, PartialEq, Eq, Hash, PartialOrd, Ord)]
pub enum ParseClass {
    NotRun,
    Ok,
    Alignment,
    Padding,
    ZeroWidth,
    DataSize,
    SymbolSize,
    Panic,
}

#[derive(Clone, Copy, Debug, PartialEq, Eq, Hash, PartialOrd, Ord)]
pub enum EcClass {
    NotRun,
    OkUntouched,
    OkRestoredSent,
    OkOtherCodeword,
    OkNonCodeword,
    TooManyErrors,
    ErrorsOutsideRange,
    Malfunction,
    Panic,
}

#[derive(Clone, Copy, Debug, PartialEq, Eq, Hash, PartialOrd, Ord)]
pub enum DataClass {
    NotRun,
    Ok,
    UnexpectedCharacter,
    NotImplemented,
    UnexpectedEnd,
    CharsetError,
    EciCode,
    Panic,
}

// external reach probes (bit positions)
pub const P_EC_REGION_BLOCK_GE1_CORRECTED: u32 = 0;
pub const P_ALL_BLOCKS_AT_T: u32 = 1;
pub const P_LAST_EC_LAST_BLOCK: u32 = 2;
pub const P_144_SHORT_BLOCK_LAST_DATA: u32 = 3;
pub const P_ONE_BLOCK_T_PLUS_1: u32 = 4;
pub const P_ALIGNED_2T_ODD_K: u32 = 5;
pub const P_LEADING_ZERO_SYNDROME: u32 = 6;
pub const P_PARSER_ACCEPT_AFTER_DATA_DAMAGE: u32 = 7;
pub const P_SINGULAR_HANKEL_MINOR: u32 = 8;
pub const P_OK_OTHER_CODEWORD: u32 = 9;
pub const P_FIXED_DAMAGE_REJECTED: u32 = 10;
pub const P_STAGED_WHOLE_DISAGREE: u32 = 11;
pub const P_FIRST_T_SYNDROMES_ZERO: u32 = 12;
pub const P_WITHIN_RADIUS_PIXEL_STAGE: u32 = 13;
pub const P_DECODE_STR_OK_NONASCII: u32 = 14;
pub const P_ECI_SEEN: u32 = 15;
pub const P_REF_MODEL_PREMISE: u32 = 16;
pub const PROBE_NAMES: &[&str] = &[
    "ec_region_error_in_block_ge1_corrected",
    "all_blocks_at_exactly_t",
    "error_on_last_ec_codeword_of_last_block",
    "sq144_short_block_damaged_at_last_data_codeword",
    "exactly_one_block_at_t_plus_1",
    "aligned_fault_j_eq_2t_on_odd_k_size",
    "leading_zero_syndrome_delivered",
    "parser_accepted_after_data_only_damage",
    "singular_hankel_leading_minor_delivered",
    "decoder_ok_on_other_valid_codeword",
    "fixed_pattern_damage_rejected",
    "staged_and_whole_decode_disagree",
    "first_t_syndromes_zero_delivered",
    "within_radius_via_pixel_stage",
    "decode_str_ok_with_non_ascii_output",
    "eci_stream_decoded",
    "reference_decoder_found_other_codeword_within_radius",
];

#[derive(Clone, Debug)]
pub struct Outcome {
    pub violations: Vec<Violation>,
    pub size: Option<usize>,
    pub producer_kind: u8,
    pub producer_panic: Option<String>,
    pub producer_refused: bool,
    pub control_failure: bool,
    pub fired: Vec<bool>,
    pub fired_kinds: u64,
    pub parse: ParseClass,
    pub ec: EcClass,
    pub data: DataClass,
    pub strc: DataClass,
    pub whole_ok: bool,
    /// per block: 0 none, 1 <t, 2 =t, 3 t+1, 4 >t+1   (distance between sent word and the word the decoder saw)
    pub block_damage: Vec<u8>,
    pub regions: u8,
    pub premise_c03: bool,
    /// C03 premise established by the reference model instead of by construction: the received word lies within
    /// floor(k/2) substitutions per block of this codeword vector (checked with the crate's encode_error), which
    /// is NOT the word that was sent (or nothing was sent: fabricated input). (data codewords, word)
    pub ref_word: Option<(usize, Vec<u8>)>,
    pub probes: u32,
    pub other_events: Vec<String>,
}

fn parse_class(e: &BitmapConversionError) -> ParseClass {
    match e {
        BitmapConversionError::Alignment => ParseClass::Alignment,
        BitmapConversionError::Padding => ParseClass::Padding,
        BitmapConversionError::ZeroWidth => ParseClass::ZeroWidth,
        BitmapConversionError::DataSize => ParseClass::DataSize,
        BitmapConversionError::SymbolSize => ParseClass::SymbolSize,
    }
}

fn ec_err_class(e: &ErrorDecodingError) -> EcClass {
    match e {
        ErrorDecodingError::TooManyErrors => EcClass::TooManyErrors,
        ErrorDecodingError::ErrorsOutsideRange => EcClass::ErrorsOutsideRange,
        ErrorDecodingError::Malfunction => EcClass::Malfunction,
    }
}

fn data_err_class(e: &DataDecodingError) -> DataClass {
    match e {
        DataDecodingError::UnexpectedCharacter(..) => DataClass::UnexpectedCharacter,
        DataDecodingError::NotImplemented(..) => DataClass::NotImplemented,
        DataDecodingError::UnexpectedEnd => DataClass::UnexpectedEnd,
        DataDecodingError::CharsetError => DataClass::CharsetError,
        DataDecodingError::ECICode => DataClass::EciCode,
    }
}

fn modes_from_mask(mask: u8) -> flagset_shim::Modes {
    flagset_shim::from_mask(mask)
}

/// EncodationType set from a 6-bit mask, without naming the flagset crate.
pub mod flagset_shim {
    use datamatrix::EncodationType;
    pub type Modes = Vec<EncodationType>;
    pub const ALL: [EncodationType; 6] = [
        EncodationType::Ascii,
        EncodationType::C40,
        EncodationType::Text,
        EncodationType::X12,
        EncodationType::Edifact,
        EncodationType::Base256,
    ];
    pub fn from_mask(mask: u8) -> Modes {
        ALL.iter()
            .enumerate()
            .filter(|(i, _)| mask & (1 << i) != 0)
            .map(|(_, m)| *m)
            .collect()
    }
}

fn symbol_list(spec: &ListSpec) -> SymbolList {
    match spec {
        ListSpec::Single(i) => SymbolList::from(SIZES[*i].size),
        ListSpec::Default => SymbolList::default(),
        ListSpec::Extended => SymbolList::with_extended_rectangles(),
        ListSpec::Subset(v) => SymbolList::with_whitelist(v.iter().map(|i| SIZES[*i].size)),
    }
}

/// Run the real message encoder. Ok(None) = encoder refused (DataEncodingError).
pub fn produce_msg(
    msg: &[u8],
    list: &ListSpec,
    modes: u8,
    macros: bool,
    fnc1: bool,
    eci: Option<u32>,
) -> Result<Option<(usize, Vec<u8>, Vec<u8>)>, Panicked> {
    guard(|| {
        let ms = modes_from_mask(modes);
        let mut it = ms.iter();
        let first = match it.next() {
            Some(f) => *f,
            None => return None,
        };
        let mut set = first | first;
        for m in it {
            set |= *m;
        }
        let b = DataMatrixBuilder::new()
            .with_symbol_list(symbol_list(list))
            .with_encodation_types(set)
            .with_macros(macros)
            .with_fnc1_start(fnc1);
        match b.encode_eci(msg, eci) {
            Ok(dm) => catalogue::find_by_size(dm.size)
                .map(|s| (s.idx, dm.data_codewords().to_vec(), dm.codewords().to_vec())),
            Err(_) => None,
        }
    })
}

pub struct ExecOpts {
    /// evaluate the (more expensive) C08 oracles
    pub c08: bool,
    /// call decode_data/decode_str even when error correction failed (C05: "any codeword slice")
    pub data_after_ec_failure: bool,
    /// run the data decoders and the whole-symbol DataMatrix::decode (needed by the C03 and C05 oracles only;
    /// C08 and C09 do not look at them, and a defect there must not keep those checks from finishing)
    pub data_stage: bool,
    /// enumeration phases at the codeword stage only: hand the damaged codeword vector to decode_error
    /// directly (no rendering / parsing / whole-symbol decode); the staged C03 / C09 / C05 oracles still apply
    pub codeword_only: bool,
}

#[inline]
fn set_probe(o: &mut Outcome, p: u32) {
    o.probes |= 1 << p;
}

/// A trace whose fault list contains `NextCall` separators is a HISTORY: the consumer is called once per
/// segment on the same producer output, in order, in this thread; the last segment is the call that is checked
/// (and it is made twice: a pure function must give the same, correct answer again). Panics of the earlier
/// calls are reported like any other.
pub fn execute(ctx: &Ctx, trace: &Trace, opts: &ExecOpts) -> Outcome {
    if trace.faults.iter().any(|f| matches!(f.op, Op::NextCall)) {
        let mut segments: Vec<Vec<crate::trace::Fault>> = vec![Vec::new()];
        let mut seg_start: Vec<usize> = vec![0];
        for (i, f) in trace.faults.iter().enumerate() {
            if matches!(f.op, Op::NextCall) {
                segments.push(Vec::new());
                seg_start.push(i + 1);
            } else {
                segments.last_mut().unwrap().push(f.clone());
            }
        }
        let n = segments.len();
        let mut carried: Vec<Violation> = Vec::new();
        for seg in segments.iter().take(n - 1) {
            let sub = Trace { prop: trace.prop.clone(), producer: trace.producer.clone(), faults: seg.clone() };
            let o = execute_one(ctx, &sub, opts);
            for v in o.violations {
                if v.prop == "C05" {
                    carried.push(Violation { prop: v.prop, class: v.class, detail: format!("(in an earlier call of the history) {}", v.detail) });
                }
            }
        }
        let main = Trace { prop: trace.prop.clone(), producer: trace.producer.clone(), faults: segments[n - 1].clone() };
        let mut o = execute_one(ctx, &main, opts);
        let again = execute_one(ctx, &main, opts);
        for v in again.violations {
            if !o.violations.iter().any(|w| w.prop == v.prop && w.class == v.class) {
                o.violations.push(Violation { prop: v.prop, class: format!("{}@repeated_call", v.class), detail: v.detail });
            }
        }
        if again.ec != o.ec || again.parse != o.parse || again.data != o.data {
            o.other_events.push("same_input_different_outcome_on_repeated_call".into());
        }
        o.violations.extend(carried);
        // map `fired` back onto the full fault list
        let mut fired = vec![false; trace.faults.len()];
        for (j, f) in o.fired.iter().enumerate() {
            fired[seg_start[n - 1] + j] = *f;
        }
        o.fired = fired;
        o.fired_kinds |= 1u64 << crate::trace::kind_id("history");
        return o;
    }
    execute_one(ctx, trace, opts)
}

fn execute_one(ctx: &Ctx, trace: &Trace, opts: &ExecOpts) -> Outcome {
    let nf = trace.faults.len();
    let mut o = Outcome {
        violations: Vec::new(),
        size: None,
        producer_kind: 0,
        producer_panic: None,
        producer_refused: false,
        control_failure: false,
        fired: vec![false; nf],
        fired_kinds: 0,
        parse: ParseClass::NotRun,
        ec: EcClass::NotRun,
        data: DataClass::NotRun,
        strc: DataClass::NotRun,
        whole_ok: false,
        block_damage: Vec::new(),
        regions: 0,
        premise_c03: false,
        ref_word: None,
        probes: 0,
        other_events: Vec::new(),
    };
    let prop = trace.prop.as_str();

    // ---------------- producer ----------------
    let mut sinfo: Option<&'static SizeInfo> = None;
    let mut s1: Vec<u8> = Vec::new();
    let mut expected_msg: Option<Vec<u8>> = None;
    match &trace.producer {
        Producer::Raw { size, data } => {
            o.producer_kind = 0;
            let s = &SIZES[*size % N_SIZES];
            if data.len() != s.n_data {
                o.producer_refused = true;
                return o;
            }
            sinfo = Some(s);
            s1 = data.clone();
        }
        Producer::Msg { msg, list, modes, macros, fnc1, eci } => {
            o.producer_kind = 1;
            match produce_msg(msg, list, *modes, *macros, *fnc1, *eci) {
                Ok(Some((idx, data, _all))) => {
                    sinfo = Some(&SIZES[idx]);
                    s1 = data;
                    if eci.is_none() {
                        expected_msg = Some(msg.clone());
                    }
                }
                Ok(None) => {
                    o.producer_refused = true;
                    return o;
                }
                Err(p) => {
                    o.producer_panic = Some(p.loc);
                    return o;
                }
            }
        }
        Producer::Stream { data } => {
            o.producer_kind = 2;
            s1 = data.clone();
        }
    }
    o.size = sinfo.map(|s| s.idx);

    // ---------------- S1: sender-side faults ----------------
    apply_s1(&trace.faults, &mut s1, &mut o.fired);
    let s1_faulted = trace
        .faults
        .iter()
        .zip(o.fired.iter())
        .any(|(f, fired)| *fired && f.op.stage() == Stage::S1);
    if s1_faulted {
        expected_msg = None;
    }

    let mut px: Vec<bool> = Vec::new();
    let mut width: usize = 0;
    let mut sent: Vec<u8> = Vec::new(); // the valid word that was "printed" (after sender-side faults)
    let mut s2f: Vec<u8> = Vec::new();
    let mut rendered: Vec<bool> = Vec::new();

    if let Some(s) = sinfo {
        // ---------------- S2 ----------------
        let is_raw = matches!(trace.producer, Producer::Raw { .. });
        let ec = match guard(|| encode_error(&s1, s.size)) {
            Ok(ec) => ec,
            Err(p) => {
                if is_raw && prop == "C03" {
                    // a data vector of the standard's length for this size cannot even be completed
                    // to a codeword vector: the size's block structure is not the standard's
                    o.violations.push(Violation {
                        prop: "C03",
                        class: format!("symbol_structure:encode_error_panic@{}", p.loc),
                        detail: format!("{}: encode_error panicked on {} data codewords (the standard's count): {}", s.name, s1.len(), p.msg),
                    });
                }
                o.producer_panic = Some(p.loc);
                return o;
            }
        };
        sent = s1.clone();
        sent.extend_from_slice(&ec);
        if sent.len() != s.n_total() || ec.len() != s.blocks * s.k {
            o.other_events.push("catalogue_mismatch_total_codewords".into());
            if prop == "C03" {
                o.violations.push(Violation {
                    prop: "C03",
                    class: "symbol_structure:ec_codeword_count".into(),
                    detail: format!("{}: encode_error produced {} EC codewords, the standard says {} blocks x {} = {}", s.name, ec.len(), s.blocks, s.k, s.blocks * s.k),
                });
            }
            return o;
        }
        s2f = sent.clone();
        apply_s2(&trace.faults, &mut s2f, &mut o.fired);

        if opts.codeword_only && !trace.faults.iter().any(|f| f.op.stage() == Stage::S4) {
            for (f, fired) in trace.faults.iter().zip(o.fired.iter()) {
                if *fired {
                    o.fired_kinds |= 1u64 << f.kind;
                }
            }
            let mut dist = vec![0usize; s.blocks];
            for p in 0..s.n_total() {
                if s2f[p] != sent[p] {
                    dist[s.block_of(p)] += 1;
                    o.regions |= if s.is_ec(p) { 2 } else { 1 };
                    o.regions |= if s.block_of(p) == 0 { 4 } else { 8 };
                }
            }
            let t = s.t();
            o.block_damage = dist.iter().map(|d| if *d == 0 { 0 } else if *d < t { 1 } else if *d == t { 2 } else if *d == t + 1 { 3 } else { 4 }).collect();
            o.premise_c03 = dist.iter().all(|d| *d <= t);
            o.parse = ParseClass::NotRun;
            let mut staged_panicked = false;
            let light = ExecOpts { c08: false, data_after_ec_failure: false, data_stage: false, codeword_only: true };
            let _ = consumer_ec_and_data(ctx, s, sinfo, &sent, s2f.clone(), &light, prop, &mut o, &mut staged_panicked);
            return o;
        }
        // ---------------- S3/S4: render ----------------
        let surplus = crate::trace::surplus_of(&trace.faults);
        match guard(|| {
            let bm = if surplus.is_empty() {
                MatrixMap::new_with_codewords(&s2f, s.size).bitmap()
            } else {
                let mut longer = s2f.clone();
                longer.extend_from_slice(&surplus);
                MatrixMap::new_with_codewords(&longer, s.size).bitmap()
            };
            (bm.bits().to_vec(), bm.width(), bm.height())
        }) {
            Ok((bits, w, h)) => {
                if opts.c08 {
                    c08_forward(ctx, s, &s2f, &bits, w, h, &mut o);
                }
                px = bits;
                width = w;
            }
            Err(p) => {
                if opts.c08 {
                    o.violations.push(Violation {
                        prop: "C08",
                        class: format!("render_panic@{}", p.loc),
                        detail: p.msg,
                    });
                } else if prop == "C03" {
                    o.violations.push(Violation {
                        prop: "C03",
                        class: format!("symbol_structure:render_panic@{}", p.loc),
                        detail: format!("{}: a codeword vector of the standard's length could not be rendered: {}", s.name, p.msg),
                    });
                }
                o.producer_panic = Some(p.loc);
                return o;
            }
        }
        rendered = px.clone();
    }

    // ---------------- S4: the medium damages the printed symbol ----------------
    apply_s4(&trace.faults, &mut px, &mut width, &mut o.fired);
    for (f, fired) in trace.faults.iter().zip(o.fired.iter()) {
        if *fired {
            o.fired_kinds |= 1u64 << f.kind;
        }
    }
    let geo_fired = trace
        .faults
        .iter()
        .zip(o.fired.iter())
        .any(|(f, fired)| *fired && f.op.is_geo());

    // plan-side knowledge of what the consumer ought to read back
    let mut expected_rx: Option<Vec<u8>> = None; // codeword vector the decoder should see
    let mut fixed_touched = false;
    let mut data_px_changed = 0usize;
    if let Some(s) = sinfo {
        if !geo_fired && px.len() == rendered.len() {
            if let Some(map) = ctx.maps[s.idx].as_ref().filter(|m| m.roles_agree_with_template) {
                let mut exp = s2f.clone();
                for (i, (a, b)) in rendered.iter().zip(px.iter()).enumerate() {
                    if a != b {
                        match map.roles[i] {
                            PixelRole::Data { cw, bit } => {
                                data_px_changed += 1;
                                if (cw as usize) < exp.len() {
                                    exp[cw as usize] ^= 0x80 >> bit;
                                }
                            }
                            PixelRole::Fixed(_) => fixed_touched = true,
                        }
                    }
                }
                if !fixed_touched {
                    expected_rx = Some(exp);
                }
            }
        }
    }

    // per-block damage classes, regions, premise
    if let (Some(s), Some(exp)) = (sinfo, expected_rx.as_ref()) {
        let mut dist = vec![0usize; s.blocks];
        for p in 0..s.n_total() {
            if exp[p] != sent[p] {
                let b = s.block_of(p);
                dist[b] += 1;
                o.regions |= if s.is_ec(p) { 2 } else { 1 };
                o.regions |= if b == 0 { 4 } else { 8 };
                if p == s.n_total() - 1 {
                    set_probe(&mut o, P_LAST_EC_LAST_BLOCK);
                }
                // last data codewords of the two short blocks (8 and 9) of 144x144
                if s.idx == 23 && (p == 8 + 10 * 154 || p == 9 + 10 * 154) {
                    set_probe(&mut o, P_144_SHORT_BLOCK_LAST_DATA);
                }
            }
        }
        let t = s.t();
        o.block_damage = dist
            .iter()
            .map(|d| {
                if *d == 0 {
                    0
                } else if *d < t {
                    1
                } else if *d == t {
                    2
                } else if *d == t + 1 {
                    3
                } else {
                    4
                }
            })
            .collect();
        o.premise_c03 = dist.iter().all(|d| *d <= t);
        if dist.iter().all(|d| *d == t) {
            set_probe(&mut o, P_ALL_BLOCKS_AT_T);
        }
        if dist.iter().filter(|d| **d == t + 1).count() == 1 && dist.iter().all(|d| *d == 0 || *d == t + 1) {
            set_probe(&mut o, P_ONE_BLOCK_T_PLUS_1);
        }
        if o.premise_c03 && data_px_changed > 0 {
            set_probe(&mut o, P_WITHIN_RADIUS_PIXEL_STAGE);
        }
        // syndrome-shape probes (field model; labels only)
        if ctx.gf_ok[s.idx] {
            for b in 0..s.blocks {
                if dist[b] == 0 {
                    continue;
                }
                let poly: Vec<u8> = s.block_positions(b).iter().map(|p| exp[*p]).collect();
                let syn = ctx.gf.syndromes(&poly, s.k);
                if syn[0] == 0 && syn.iter().any(|x| *x != 0) {
                    set_probe(&mut o, P_LEADING_ZERO_SYNDROME);
                }
                if syn[..t].iter().all(|x| *x == 0) && syn.iter().any(|x| *x != 0) {
                    set_probe(&mut o, P_FIRST_T_SYNDROMES_ZERO);
                }
                if s.k % 2 == 1 && syn[..2 * t].iter().all(|x| *x == 0) && syn[2 * t] != 0 {
                    set_probe(&mut o, P_ALIGNED_2T_ODD_K);
                }
                if syn[0] != 0 && dist[b] <= t {
                    for v in 2..=dist[b].min(4) {
                        if 2 * v - 1 <= s.k && ctx.gf.hankel_det(&syn, v) == 0 && dist[b] > v - 1 {
                            set_probe(&mut o, P_SINGULAR_HANKEL_MINOR);
                        }
                    }
                }
            }
        }
    }

    // ---------------- consumer, staged ----------------
    let has_pixels = sinfo.is_some() || trace.faults.iter().any(|f| f.op.stage() == Stage::S4);
    let mut staged: Option<Result<Vec<u8>, DecodingError>> = None;
    let mut staged_panicked = false;
    if has_pixels && prop == "C05" && px.len() <= 30_000 {
        // "any pixel vector": the conversion is generic over the pixel type. The same array as light / dark values of
        // a many-valued type, once as is and once with further values sprinkled over it (an "undecided" module).
        // with catalogue dimensions the further values go on data modules only (on a fixed module they merely get
        // the array rejected)
        let tpl: Option<Vec<Option<bool>>> = if width > 0 && px.len() % width == 0 {
            catalogue::find_by_dims(px.len() / width, width).map(catalogue::fixed_template)
        } else {
            None
        };
        for sprinkle in [false, true] {
            let arr: Vec<catalogue::Tag> = px
                .iter()
                .enumerate()
                .map(|(i, b)| {
                    let data_module = tpl.as_ref().map_or(true, |t| t[i].is_none());
                    if sprinkle && data_module && (i.wrapping_mul(2654435761).wrapping_add(px.len())) % 7 == 0 {
                        catalogue::Tag(1000 + i as u32)
                    } else if *b {
                        <catalogue::Tag as datamatrix::placement::Bit>::HIGH
                    } else {
                        <catalogue::Tag as datamatrix::placement::Bit>::LOW
                    }
                })
                .collect();
            let r = guard(|| {
                if let Ok((m, _)) = MatrixMap::<catalogue::Tag>::try_from_bits(&arr, width) {
                    let bm = m.bitmap();
                    let _ = bm.bits().len();
                }
            });
            if let Err(p) = r {
                o.violations.push(Violation {
                    prop: "C05",
                    class: format!("panic:try_from_bits<generic bit type>@{}", p.loc),
                    detail: p.msg,
                });
                break;
            }
        }
    }
    if has_pixels {
        let parsed = guard(|| MatrixMap::<bool>::try_from_bits(&px, width));
        match parsed {
            Err(p) => {
                o.parse = ParseClass::Panic;
                staged_panicked = true;
                if opts.c08 {
                    o.violations.push(Violation {
                        prop: "C08",
                        class: format!("parse_panic@{}", p.loc),
                        detail: format!("try_from_bits neither accepted nor rejected {} pixels with width {}: {}", px.len(), width, p.msg),
                    });
                }
                o.violations.push(Violation {
                    prop: "C05",
                    class: format!("panic:try_from_bits@{}", p.loc),
                    detail: p.msg,
                });
            }
            Ok(Err(e)) => {
                o.parse = parse_class(&e);
                staged = Some(Err(DecodingError::PixelConversion(e.clone())));
                if fixed_touched && !geo_fired {
                    set_probe(&mut o, P_FIXED_DAMAGE_REJECTED);
                }
                if opts.c08 {
                    c08_rejected(ctx, &px, width, &e, &mut o);
                }
            }
            Ok(Ok((m, sz))) => {
                o.parse = ParseClass::Ok;
                if data_px_changed > 0 && !fixed_touched {
                    set_probe(&mut o, P_PARSER_ACCEPT_AFTER_DATA_DAMAGE);
                }
                let rs = catalogue::find_by_size(sz);
                // codewords()
                let cw = guard(|| m.codewords());
                if opts.c08 {
                    c08_accepted(ctx, &m, sz, &px, width, sinfo, expected_rx.as_deref(), cw.as_ref().ok(), &mut o);
                }
                match (cw, rs) {
                    (Err(p), _) => {
                        staged_panicked = true;
                        o.violations.push(Violation {
                            prop: "C05",
                            class: format!("panic:codewords@{}", p.loc),
                            detail: p.msg,
                        });
                    }
                    (Ok(_), None) => {
                        o.other_events.push("parser_returned_size_unknown_to_catalogue".into());
                    }
                    (Ok(cw), Some(rs)) => {
                        if cw.len() != rs.n_total() {
                            o.other_events.push("readback_length_differs_from_catalogue".into());
                        }
                        staged = consumer_ec_and_data(ctx, rs, sinfo, &sent, cw, opts, prop, &mut o, &mut staged_panicked);
                    }
                }
            }
        }
    } else if opts.data_stage {
        // Stream producer without pixels: the data decoders are the entry point
        consumer_data(&s1, &mut o, &mut staged_panicked);
    }

    // ---------------- consumer, whole ----------------
    let mut whole: Option<Result<Vec<u8>, DecodingError>> = None;
    if has_pixels && opts.data_stage {
        match guard(|| DataMatrix::decode(&px, width)) {
            Ok(r) => {
                o.whole_ok = r.is_ok();
                whole = Some(r);
            }
            Err(p) => {
                o.violations.push(Violation {
                    prop: "C05",
                    class: format!("panic:DataMatrix::decode@{}", p.loc),
                    detail: p.msg,
                });
            }
        }
        if let (Some(w), Some(st)) = (&whole, &staged) {
            if w != st && !staged_panicked {
                set_probe(&mut o, P_STAGED_WHOLE_DISAGREE);
                o.other_events.push("staged_and_whole_decode_disagree".into());
            }
        }
    }

    // ---------------- C03 end-to-end clause under the reference model's premise ----------------
    if let (Some((nd, c2)), Some(w)) = (&o.ref_word, &whole) {
        if o.parse == ParseClass::Ok && !staged_panicked {
            if let Ok(expected) = guard(|| decode_data(&c2[..*nd])) {
                let expected: Result<Vec<u8>, DecodingError> = expected.map_err(DecodingError::DataDecoding);
                if *w != expected {
                    let detail = format!("whole-symbol decode gave {} but the codeword vector within the radius (reference decoder) decodes to {}", short_res(w), short_res(&expected));
                    o.violations.push(Violation { prop: "C03", class: "ref_model_e2e_wrong_message".into(), detail });
                }
            }
        }
    }

    // ---------------- C03 end-to-end clause ----------------
    if let Some(s) = sinfo {
        if o.premise_c03 && prop == "C03" {
            // what decoding the undamaged symbol must give: the data decoder applied to the sent data part
            let expected = guard(|| decode_data(&sent[..s.n_data]));
            if let Ok(expected) = expected {
                let expected: Result<Vec<u8>, DecodingError> = expected.map_err(DecodingError::DataDecoding);
                if let Some(m) = &expected_msg {
                    if expected.as_ref().ok() != Some(m) {
                        o.control_failure = true;
                    }
                }
                match &whole {
                    Some(w) => {
                        if *w != expected {
                            let class = match w {
                                Err(DecodingError::PixelConversion(e)) => format!("e2e_parse_reject:{:?}", e),
                                Err(DecodingError::ErrorCorrection(e)) => format!("e2e_ec_err:{:?}", e),
                                _ => "e2e_wrong_message".to_string(),
                            };
                            o.violations.push(Violation {
                                prop: "C03",
                                class,
                                detail: format!("whole-symbol decode gave {} but the undamaged symbol decodes to {}", short_res(w), short_res(&expected)),
                            });
                        }
                    }
                    None => {
                        // DataMatrix::decode panicked within the radius
                        let loc = o
                            .violations
                            .iter()
                            .rev()
                            .find(|v| v.class.starts_with("panic:DataMatrix::decode"))
                            .map(|v| v.class.clone())
                            .unwrap_or_default();
                        o.violations.push(Violation {
                            prop: "C03",
                            class: format!("e2e_{}", loc),
                            detail: "whole-symbol decode panicked on damage within the correction radius".into(),
                        });
                    }
                }
            }
        }
    }
    o
}

fn short_res(r: &Result<Vec<u8>, DecodingError>) -> String {
    match r {
        Ok(v) => format!("Ok({} bytes, fnv {:016x})", v.len(), crate::rng::fnv64(v)),
        Err(e) => format!("Err({:?})", e),
    }
}

#[allow(clippy::too_many_arguments)]
fn consumer_ec_and_data(
    ctx: &Ctx,
    rs: &'static SizeInfo,
    sinfo: Option<&'static SizeInfo>,
    sent: &[u8],
    cw: Vec<u8>,
    opts: &ExecOpts,
    _prop: &str,
    o: &mut Outcome,
    staged_panicked: &mut bool,
) -> Option<Result<Vec<u8>, DecodingError>> {
    let _ = ctx;
    let same_size = sinfo.map(|s| s.idx == rs.idx).unwrap_or(false) && cw.len() == sent.len();
    // measured distance between what was sent and what the decoder sees
    let mut measured_within = false;
    if same_size {
        let mut dist = vec![0usize; rs.blocks];
        for p in 0..cw.len() {
            if cw[p] != sent[p] {
                dist[rs.block_of(p)] += 1;
            }
        }
        measured_within = dist.iter().all(|d| *d <= rs.t());
    }
    // Reference model (refinement oracle): where the premise of C03 is not given by construction - the word is far
    // from what was sent, or nothing was sent at all - a textbook bounded-distance decoder decides whether the
    // received word lies within floor(k/2) substitutions per block of SOME codeword vector c'. If it does, C03 with
    // c' as "the original" demands that decode_error restores exactly c'. The model is not believed as it stands:
    // c' must be a codeword by the crate's own encode_error, and the distances are counted here.
    let mut ref_word: Option<Vec<u8>> = None;
    if !measured_within && cw.len() == rs.n_total() && ctx.gf_ok[rs.idx] && std::env::var_os("DMSIM_NO_REF_MODEL").is_none() {
        let mut cand = cw.clone();
        let mut ok = true;
        for b in 0..rs.blocks {
            let pos = rs.block_positions(b);
            let poly: Vec<u8> = pos.iter().map(|p| cw[*p]).collect();
            match ctx.gf.bd_decode_block(&poly, rs.k) {
                Some(fixed) => {
                    let d = fixed.iter().zip(poly.iter()).filter(|(a, b)| a != b).count();
                    if d > rs.t() {
                        ok = false;
                        break;
                    }
                    for (i, p) in pos.iter().enumerate() {
                        cand[*p] = fixed[i];
                    }
                }
                None => {
                    ok = false;
                    break;
                }
            }
        }
        if ok {
            if let Ok(ec) = guard(|| encode_error(&cand[..rs.n_data], rs.size)) {
                if ec[..] == cand[rs.n_data..] {
                    set_probe(o, P_REF_MODEL_PREMISE);
                    o.ref_word = Some((rs.n_data, cand.clone()));
                    ref_word = Some(cand);
                }
            }
        }
    }
    let mut rx = cw.clone();
    let res = guard(|| decode_error(&mut rx, rs.size));
    if let Some(c2) = &ref_word {
        match &res {
            Err(p) => o.violations.push(Violation {
                prop: "C03",
                class: format!("ref_model_panic@{}", p.loc),
                detail: format!("decode_error panicked on a word within the radius of a codeword vector (found by the reference decoder): {}", p.msg),
            }),
            Ok(Err(e)) => o.violations.push(Violation {
                prop: "C03",
                class: format!("ref_model_err:{:?}", e),
                detail: format!("{}: the received word lies within floor(k/2) substitutions per block of a codeword vector (reference decoder, confirmed with encode_error) but decode_error reports failure", rs.name),
            }),
            Ok(Ok(())) => {
                if rx != *c2 {
                    o.violations.push(Violation {
                        prop: "C03",
                        class: "ref_model_wrong_word".into(),
                        detail: format!(
                            "{}: the received word lies within floor(k/2) substitutions per block of a codeword vector (reference decoder, confirmed with encode_error) but decode_error left a word that differs from it in {} codeword(s)",
                            rs.name,
                            rx.iter().zip(c2.iter()).filter(|(a, b)| a != b).count()
                        ),
                    });
                }
            }
        }
    }
    // the same received word once more in a buffer that does not start on an 8-byte boundary (a sub-slice of a larger
    // buffer): the outcome must not depend on where the codewords lie
    if cw.len() >= 8 {
        let mut buf = vec![0u8; cw.len() + 16];
        let base = buf.as_ptr() as usize % 8;
        let want = 1 + (cw.len() + cw[0] as usize) % 7; // 1..=7
        let off = (want + 8 - base) % 8 + if (want + 8 - base) % 8 == 0 { 8 } else { 0 };
        buf[off..off + cw.len()].copy_from_slice(&cw);
        let size = rs.size;
        let n = cw.len();
        let res2 = guard(|| {
            let r = decode_error(&mut buf[off..off + n], size);
            (r, buf[off..off + n].to_vec())
        });
        match (&res, res2) {
            (_, Err(p)) => {
                if res.is_ok() {
                    o.violations.push(Violation {
                        prop: "C05",
                        class: format!("panic:decode_error(unaligned buffer)@{}", p.loc),
                        detail: p.msg,
                    });
                }
            }
            (Ok(r1), Ok((r2, rx2))) => {
                if r1.is_ok() != r2.is_ok() || (r1.is_ok() && rx2 != rx) {
                    o.other_events.push("decode_error_depends_on_buffer_alignment".into());
                    if measured_within && (r2.is_err() || rx2 != sent) {
                        o.violations.push(Violation {
                            prop: "C03",
                            class: "staged_wrong_word(unaligned buffer)".into(),
                            detail: "the received word, within the radius, is repaired in an 8-byte aligned buffer but not in an unaligned one".into(),
                        });
                    }
                    if r2.is_ok() && rx2.len() == rs.n_total() {
                        if let Ok(ec) = guard(|| encode_error(&rx2[..rs.n_data], rs.size)) {
                            if ec[..] != rx2[rs.n_data..] {
                                o.violations.push(Violation {
                                    prop: "C09",
                                    class: "ok_non_codeword(unaligned buffer)".into(),
                                    detail: format!("decode_error returned Ok for {} in an unaligned buffer and left a non-codeword", rs.name),
                                });
                            }
                        }
                    }
                }
            }
            _ => {}
        }
    }
    match res {
        Err(p) => {
            o.ec = EcClass::Panic;
            *staged_panicked = true;
            o.violations.push(Violation {
                prop: "C05",
                class: format!("panic:decode_error@{}", p.loc),
                detail: p.msg.clone(),
            });
            if measured_within {
                o.violations.push(Violation {
                    prop: "C03",
                    class: format!("staged_panic@{}", p.loc),
                    detail: format!("decode_error panicked on damage within the radius: {}", p.msg),
                });
            }
            if opts.data_after_ec_failure && cw.len() >= rs.n_data {
                let mut dummy = false;
                consumer_data(&cw[..rs.n_data], o, &mut dummy);
            }
            None
        }
        Ok(Err(e)) => {
            o.ec = ec_err_class(&e);
            if measured_within {
                o.violations.push(Violation {
                    prop: "C03",
                    class: format!("staged_err:{:?}", e),
                    detail: "decode_error reported failure on damage within the radius".into(),
                });
            }
            if opts.data_after_ec_failure && cw.len() >= rs.n_data {
                // "any codeword slice": the data decoders must cope with the uncorrected data part too
                let mut dummy = false;
                let save = (o.data, o.strc);
                consumer_data(&cw[..rs.n_data], o, &mut dummy);
                o.data = save.0;
                o.strc = save.1;
            }
            Some(Err(DecodingError::ErrorCorrection(e)))
        }
        Ok(Ok(())) => {
            // C09: Ok => the word left behind is a codeword
            let mut is_codeword = false;
            if rx.len() == rs.n_total() {
                match guard(|| encode_error(&rx[..rs.n_data], rs.size)) {
                    Ok(ec) => {
                        is_codeword = ec[..] == rx[rs.n_data..];
                        if !is_codeword {
                            o.violations.push(Violation {
                                prop: "C09",
                                class: "ok_non_codeword".into(),
                                detail: format!(
                                    "decode_error returned Ok for {} but re-encoding the data part differs from the EC part in {} codeword(s)",
                                    rs.name,
                                    ec.iter().zip(rx[rs.n_data..].iter()).filter(|(a, b)| a != b).count()
                                ),
                            });
                        }
                    }
                    Err(_) => o.other_events.push("encode_error_panicked_in_c09_oracle".into()),
                }
            }
            o.ec = if !is_codeword {
                EcClass::OkNonCodeword
            } else if rx == cw {
                if same_size && rx == sent {
                    EcClass::OkUntouched
                } else {
                    EcClass::OkOtherCodeword
                }
            } else if same_size && rx == sent {
                EcClass::OkRestoredSent
            } else {
                EcClass::OkOtherCodeword
            };
            if o.ec == EcClass::OkOtherCodeword {
                set_probe(o, P_OK_OTHER_CODEWORD);
            }
            if measured_within && rx != sent {
                o.violations.push(Violation {
                    prop: "C03",
                    class: "staged_wrong_word".into(),
                    detail: format!(
                        "decode_error returned Ok within the radius but {} codeword(s) differ from the sent word",
                        rx.iter().zip(sent.iter()).filter(|(a, b)| a != b).count()
                    ),
                });
            }
            if same_size && o.ec == EcClass::OkRestoredSent {
                // did we correct something in the EC region of a block >= 1 ?
                for p in rs.n_data..rs.n_total() {
                    if cw[p] != sent[p] && rs.block_of(p) >= 1 {
                        set_probe(o, P_EC_REGION_BLOCK_GE1_CORRECTED);
                        break;
                    }
                }
            }
            if !opts.data_stage {
                return None;
            }
            let d = consumer_data(&rx[..rs.n_data.min(rx.len())], o, staged_panicked);
            d.map(|r| r.map_err(DecodingError::DataDecoding))
        }
    }
}

fn consumer_data(data: &[u8], o: &mut Outcome, panicked: &mut bool) -> Option<Result<Vec<u8>, DataDecodingError>> {
    let r = guard(|| decode_data(data));
    let out = match r {
        Ok(r) => {
            o.data = match &r {
                Ok(_) => DataClass::Ok,
                Err(e) => data_err_class(e),
            };
            if matches!(r, Err(DataDecodingError::ECICode)) {
                set_probe(o, P_ECI_SEEN);
            }
            Some(r)
        }
        Err(p) => {
            o.data = DataClass::Panic;
            *panicked = true;
            o.violations.push(Violation {
                prop: "C05",
                class: format!("panic:decode_data@{}", p.loc),
                detail: p.msg,
            });
            None
        }
    };
    match guard(|| decode_str(data)) {
        Ok(r) => {
            o.strc = match &r {
                Ok(s) => {
                    if !s.is_ascii() {
                        set_probe(o, P_DECODE_STR_OK_NONASCII);
                    }
                    DataClass::Ok
                }
                Err(e) => data_err_class(e),
            };
        }
        Err(p) => {
            o.strc = DataClass::Panic;
            o.violations.push(Violation {
                prop: "C05",
                class: format!("panic:decode_str@{}", p.loc),
                detail: p.msg,
            });
        }
    }
    // the same codewords once more from a buffer that does NOT start on an 8-byte boundary (a sub-slice of the caller's
    // buffer): word-at-a-time code paths depend on where the slice lies, not on what it holds
    if data.len() >= 8 && data.len() <= 4_000_000 && !*panicked {
        let off = 1 + (data.len() + data[0] as usize) % 7;
        let mut buf = vec![0u8; data.len() + 8];
        let base = buf.as_ptr() as usize % 8;
        let off = (off + 8 - base) % 8; // so that the slice really starts at address = off (mod 8), off != 0
        let off = if off == 0 { 1 } else { off };
        buf[off..off + data.len()].copy_from_slice(data);
        let sub = &buf[off..off + data.len()];
        match guard(|| (decode_data(sub), decode_str(sub))) {
            Ok((d2, _s2)) => {
                if let Some(Ok(d1)) = out.as_ref().map(|r| r.as_ref().map_err(|_| ())) {
                    if d2.as_ref().ok() != Some(d1) {
                        o.other_events.push("result_depends_on_buffer_alignment".into());
                    }
                }
            }
            Err(p) => {
                o.violations.push(Violation {
                    prop: "C05",
                    class: format!("panic:decode_data/str(unaligned slice)@{}", p.loc),
                    detail: p.msg,
                });
            }
        }
    }
    out
}

// ---------------- C08 oracles ----------------

fn c08_forward(ctx: &Ctx, s: &SizeInfo, content_cw: &[u8], bits: &[bool], w: usize, h: usize, o: &mut Outcome) {
    // the same laws for the generic bit type (established once per size at start-up with a tagged matrix)
    match ctx.maps[s.idx].as_ref() {
        Some(map) => {
            if !map.roles_agree_with_template {
                o.violations.push(Violation {
                    prop: "C08",
                    class: "render_fixed_pattern_generic_bit_type".into(),
                    detail: format!("{}: rendering a MatrixMap of a non-bool bit type does not put the fixed pattern where the standard says", s.name),
                });
            } else if let Some(d) = guard(|| map.third_value(s).clone()).unwrap_or_else(|p| Some(format!("{}: parsing an array of a non-bool bit type panicked at {}", s.name, p.loc))) {
                o.violations.push(Violation {
                    prop: "C08",
                    class: "accepted_not_rerenderable_generic_bit_type".into(),
                    detail: d,
                });
            } else if !map.tag_roundtrip_ok {
                o.violations.push(Violation {
                    prop: "C08",
                    class: "roundtrip_generic_bit_type".into(),
                    detail: format!("{}: parsing the rendering of a MatrixMap of a non-bool bit type does not return the same content and size", s.name),
                });
            }
        }
        None => o.violations.push(Violation {
            prop: "C08",
            class: "render_panic_generic_bit_type".into(),
            detail: format!("{}: rendering a MatrixMap of a non-bool bit type panicked", s.name),
        }),
    }
    if w != s.cols || h != s.rows || bits.len() != s.rows * s.cols {
        o.violations.push(Violation {
            prop: "C08",
            class: "render_dims".into(),
            detail: format!("{} rendered as {}x{} ({} pixels)", s.name, h, w, bits.len()),
        });
        return;
    }
    let tpl = catalogue::fixed_template(s);
    for (i, t) in tpl.iter().enumerate() {
        if let Some(dark) = t {
            if bits[i] != *dark {
                o.violations.push(Violation {
                    prop: "C08",
                    class: "render_fixed_pattern".into(),
                    detail: format!("{}: fixed module at row {} col {} rendered {} but the standard says {}", s.name, i / w, i % w, bits[i], dark),
                });
                return;
            }
        }
    }
    match guard(|| MatrixMap::<bool>::try_from_bits(bits, w)) {
        Err(p) => o.violations.push(Violation {
            prop: "C08",
            class: format!("roundtrip_panic@{}", p.loc),
            detail: p.msg,
        }),
        Ok(Err(e)) => o.violations.push(Violation {
            prop: "C08",
            class: format!("roundtrip_reject:{:?}", e),
            detail: format!("{}: parsing the crate's own rendering failed", s.name),
        }),
        Ok(Ok((m, sz))) => {
            if sz != s.size {
                o.violations.push(Violation {
                    prop: "C08",
                    class: "roundtrip_size".into(),
                    detail: format!("{} parsed back as {:?}", s.name, sz),
                });
                return;
            }
            let same = guard(|| {
                let orig = MatrixMap::new_with_codewords(content_cw, s.size);
                (m == orig, m.codewords() == content_cw)
            });
            match same {
                Ok((true, true)) => {}
                Ok((a, b)) => o.violations.push(Violation {
                    prop: "C08",
                    class: "roundtrip_content".into(),
                    detail: format!("{}: parsed content differs from rendered content (matrix equal: {}, codewords equal: {})", s.name, a, b),
                }),
                Err(p) => o.violations.push(Violation {
                    prop: "C08",
                    class: format!("roundtrip_panic@{}", p.loc),
                    detail: p.msg,
                }),
            }
        }
    }
}

fn c08_rejected(ctx: &Ctx, px: &[bool], width: usize, e: &BitmapConversionError, o: &mut Outcome) {
    let _ = ctx;
    // geometry clauses
    let expect: Option<BitmapConversionError> = if width == 0 {
        Some(BitmapConversionError::ZeroWidth)
    } else if px.len() % width != 0 {
        Some(BitmapConversionError::DataSize)
    } else if catalogue::find_by_dims(px.len() / width, width).is_none() {
        Some(BitmapConversionError::SymbolSize)
    } else {
        None
    };
    match expect {
        Some(x) => {
            if *e != x {
                o.violations.push(Violation {
                    prop: "C08",
                    class: format!("geometry_error_class:expected_{:?}_got_{:?}", x, e),
                    detail: format!("{} pixels, width {}", px.len(), width),
                });
            }
        }
        None => {
            // catalogue dimensions: rejection is only legitimate if some fixed module deviates
            let s = catalogue::find_by_dims(px.len() / width, width).unwrap();
            let tpl = catalogue::fixed_template(s);
            let deviates = tpl.iter().zip(px.iter()).any(|(t, b)| matches!(t, Some(d) if d != b));
            if !deviates {
                o.violations.push(Violation {
                    prop: "C08",
                    class: format!("valid_symbol_rejected:{:?}", e),
                    detail: format!("{}: every finder/clock/alignment/fixed-corner module is as specified, yet parsing failed", s.name),
                });
            }
            // (an array with catalogue dimensions and a damaged fixed pattern may be rejected with any
            // error variant: the property only fixes the variant for width 0 / ragged / non-catalogue arrays)
        }
    }
}

#[allow(clippy::too_many_arguments)]
fn c08_accepted(
    ctx: &Ctx,
    m: &MatrixMap<bool>,
    sz: datamatrix::SymbolSize,
    px: &[bool],
    width: usize,
    sinfo: Option<&'static SizeInfo>,
    expected_rx: Option<&[u8]>,
    cw: Option<&Vec<u8>>,
    o: &mut Outcome,
) {
    let _ = ctx;
    // accepted => geometry must be sane and in the catalogue, size must be the catalogue's for these dims
    if width == 0 || px.len() % width != 0 {
        o.violations.push(Violation {
            prop: "C08",
            class: "accepted_bad_geometry".into(),
            detail: format!("{} pixels with width {} accepted", px.len(), width),
        });
        return;
    }
    let h = px.len() / width;
    match catalogue::find_by_dims(h, width) {
        None => {
            o.violations.push(Violation {
                prop: "C08",
                class: "accepted_non_catalogue_dims".into(),
                detail: format!("{}x{} accepted as {:?}", h, width, sz),
            });
            return;
        }
        Some(s) => {
            if s.size != sz {
                o.violations.push(Violation {
                    prop: "C08",
                    class: "accepted_wrong_size".into(),
                    detail: format!("{}x{} accepted as {:?}", h, width, sz),
                });
                return;
            }
        }
    }
    // accepted => every finder, clock, alignment and fixed-corner module is as the standard says
    // (the property's "so every ... module is checked"; the crate keeps the fixed-corner modules inside
    // its matrix content, so re-rendering alone would not notice them)
    if let Some(s) = catalogue::find_by_dims(h, width) {
        let tpl = catalogue::fixed_template(s);
        if let Some(i) = tpl.iter().zip(px.iter()).position(|(t, b)| matches!(t, Some(d) if d != b)) {
            o.violations.push(Violation {
                prop: "C08",
                class: "accepted_with_deviating_fixed_module".into(),
                detail: format!("{}: accepted although the fixed module at row {} col {} is {} (standard: {})", s.name, i / width, i % width, px[i], !px[i]),
            });
        }
    }
    // accepted => re-rendering reproduces the array bit for bit
    match guard(|| {
        let bm = m.bitmap();
        (bm.width(), bm.bits().to_vec())
    }) {
        Err(p) => o.violations.push(Violation {
            prop: "C08",
            class: format!("rerender_panic@{}", p.loc),
            detail: p.msg,
        }),
        Ok((w2, bits2)) => {
            if w2 != width || bits2[..] != px[..] {
                let ndiff = bits2.iter().zip(px.iter()).filter(|(a, b)| a != b).count();
                let first = bits2.iter().zip(px.iter()).position(|(a, b)| a != b);
                o.violations.push(Violation {
                    prop: "C08",
                    class: "accepted_not_rerenderable".into(),
                    detail: format!(
                        "accepted array differs from re-rendering of the parsed content in {} module(s), first at {:?} (width {} vs {})",
                        ndiff,
                        first.map(|i| (i / width, i % width)),
                        w2,
                        width
                    ),
                });
            }
        }
    }
    // data-only damage: content == sent content with exactly those flips
    if let (Some(s), Some(exp), Some(cw)) = (sinfo, expected_rx, cw) {
        if s.size == sz && cw[..] != exp[..] {
            o.violations.push(Violation {
                prop: "C08",
                class: "parsed_content_differs".into(),
                detail: format!(
                    "{}: parsed codewords differ from the sent content with the injected data-module flips applied, in {} codeword(s)",
                    s.name,
                    cw.iter().zip(exp.iter()).filter(|(a, b)| a != b).count()
                ),
            });
        }
    }
}

/// Names for evidence.
pub fn producer_kind_name(k: u8) -> &'static str {
    match k {
        0 => "raw",
        1 => "msg",
        _ => "stream",
    }
}

#[allow(dead_code)]
pub fn unused(_: &[EncodationType], _: &Op) {}

//! Seeded generation of runs: swarm configuration -> workload -> fault plan.
//! Draw order inside a run is fixed; nothing here reads a clock or shared state.

use crate::catalogue::{SizeInfo, MULTI_BLOCK, N_SIZES, ODD_K, SIZES};
use crate::exec::{produce_msg, Ctx};
use crate::rng::Rng;
use crate::trace::{Fault, ListSpec, Op, Producer, Trace};

#[derive(Clone, Copy, PartialEq, Eq, Debug)]
pub enum Region {
    Data,
    Ec,
    Both,
}

#[derive(Clone, Copy, PartialEq, Eq, Debug)]
pub enum PosPattern {
    Uniform,
    BlockBurst,
    Edge,
}

#[derive(Clone, Copy, PartialEq, Eq, Debug)]
pub enum ValKind {
    Subst,
    BitFlip,
    Stuck00,
    StuckFF,
}

pub fn prop_tag(prop: &str) -> u64 {
    crate::rng::fnv64(prop.as_bytes())
}

// ---------------- workload ----------------

fn pick_size(rng: &mut Rng, i: u64, favour_odd: bool) -> usize {
    if i < (2 * N_SIZES) as u64 {
        return (i as usize) % N_SIZES;
    }
    let mut w = [2usize; N_SIZES];
    for m in MULTI_BLOCK {
        w[m] = 6;
    }
    w[23] = 12;
    for o in ODD_K {
        w[o] = if favour_odd { 40 } else { 6 };
    }
    rng.weighted(&w)
}

fn raw_data(rng: &mut Rng, s: &SizeInfo) -> Vec<u8> {
    match rng.below(10) {
        0 => vec![0u8; s.n_data],
        1 => vec![0xFFu8; s.n_data],
        2 => {
            // low-entropy: one repeated byte (the pad codeword among them)
            let b = if rng.chance(1, 4) { 129 } else { rng.byte() };
            vec![b; s.n_data]
        }
        _ => rng.bytes(s.n_data),
    }
}

const ALPHA_DIGITS: &[u8] = b"0123456789";
const ALPHA_UPPER: &[u8] = b"ABCDEFGHIJKLMNOPQRSTUVWXYZ 0123456789";
const ALPHA_LOWER: &[u8] = b"abcdefghijklmnopqrstuvwxyz 0123456789";
const ALPHA_X12: &[u8] = b"ABCDEFGHIJKLMNOPQRSTUVWXYZ0123456789 \r*>";
const ALPHA_PUNCT: &[u8] = b"!\"#$%&'()*+,-./:;<=>?@[\\]^_`{|}~";

pub fn gen_message(rng: &mut Rng, len: usize) -> Vec<u8> {
    let mut out = Vec::with_capacity(len + 16);
    let envelope = rng.below(12);
    if envelope == 0 {
        out.extend_from_slice(b"[)>\x1E05\x1D");
    } else if envelope == 1 {
        out.extend_from_slice(b"[)>\x1E06\x1D");
    }
    let nseg = rng.range(1, 4);
    let mut left = len;
    for seg in 0..nseg {
        let l = if seg + 1 == nseg { left } else { rng.range(0, left) };
        left -= l;
        let kind = rng.below(10);
        if kind == 9 {
            // well-formed UTF-8 text (meaningful with ECI 26; otherwise just high bytes)
            let mut n = 0;
            while n < l {
                let cp: u32 = match rng.below(4) {
                    0 => rng.range(0x20, 0x7E) as u32,
                    1 => rng.range(0x80, 0x7FF) as u32,
                    2 => rng.range(0x800, 0xD7FF) as u32,
                    _ => rng.range(0x10000, 0x1FFFF) as u32,
                };
                let ch = char::from_u32(cp).unwrap_or('?');
                let mut buf = [0u8; 4];
                let b = ch.encode_utf8(&mut buf).as_bytes();
                out.extend_from_slice(b);
                n += b.len();
            }
            continue;
        }
        for _ in 0..l {
            let b = match kind {
                0 => *rng.pick(ALPHA_DIGITS),
                1 => *rng.pick(ALPHA_UPPER),
                2 => *rng.pick(ALPHA_LOWER),
                3 => *rng.pick(ALPHA_X12),
                4 => rng.range(0x20, 0x5E) as u8, // EDIFACT set
                5 => rng.range(0xA0, 0xFF) as u8, // Latin-1 high
                6 => rng.range(0, 0x1F) as u8,    // controls
                7 => *rng.pick(ALPHA_PUNCT),
                _ => rng.byte(),
            };
            out.push(b);
        }
    }
    if envelope <= 1 || rng.chance(1, 40) {
        out.extend_from_slice(b"\x1E\x04");
    }
    out
}

/// Application-structured content with its own integrity fields (round 24): what real labels carry. A GS1 element
/// string (FNC1 start; AI 01 + GTIN-14 with a correct mod-10 check digit, then expiry date, lot, serial number
/// separated by GS), a bare GTIN / SSCC with check digit, a Luhn-checked number, a URL. Whatever takes such a field
/// for proof that the scan needs no error correction is wrong about the rest of the message. Returns (message, FNC1 start).
pub fn gen_structured_message(rng: &mut Rng, len: usize) -> (Vec<u8>, bool) {
    fn digits(rng: &mut Rng, n: usize) -> Vec<u8> {
        (0..n).map(|_| b'0' + rng.below(10) as u8).collect()
    }
    fn gs1_check(body: &[u8]) -> u8 {
        // weights 3, 1, 3, ... counted from the RIGHT end of the body
        let sum: usize = body.iter().rev().enumerate().map(|(i, d)| (*d - b'0') as usize * if i % 2 == 0 { 3 } else { 1 }).sum();
        b'0' + ((10 - sum % 10) % 10) as u8
    }
    let mut out: Vec<u8> = Vec::new();
    match rng.below(6) {
        0..=2 => {
            out.extend_from_slice(b"01");
            let body = digits(rng, 13);
            out.extend_from_slice(&body);
            out.push(gs1_check(&body));
            if len > 24 {
                out.extend_from_slice(b"17");
                out.extend_from_slice(&[b'2', b'0' + rng.range(4, 9) as u8, b'0' + rng.below(2) as u8, b'1' + rng.below(2) as u8, b'0' + rng.below(3) as u8, b'1' + rng.below(8) as u8]);
            }
            if len > 30 {
                out.extend_from_slice(b"10");
                for _ in 0..rng.range(1, 12.min(len - 28)) {
                    out.push(*rng.pick(ALPHA_UPPER));
                }
            }
            if len > 50 {
                out.push(0x1D);
                out.extend_from_slice(b"21");
                let nser = rng.range(1, 12);
                out.extend_from_slice(&digits(rng, nser));
            }
            (out, true)
        }
        3 => {
            // SSCC-18 under AI 00
            out.extend_from_slice(b"00");
            let body = digits(rng, 17);
            out.extend_from_slice(&body);
            out.push(gs1_check(&body));
            (out, true)
        }
        4 => {
            // a Luhn-checked number (payment card layout), plain ASCII digits
            let mut body = digits(rng, 15);
            let sum: usize = body.iter().rev().enumerate().map(|(i, d)| { let v = (*d - b'0') as usize; if i % 2 == 0 { let w = v * 2; if w > 9 { w - 9 } else { w } } else { v } }).sum();
            body.push(b'0' + ((10 - sum % 10) % 10) as u8);
            (body, false)
        }
        _ => {
            out.extend_from_slice(b"https://");
            for _ in 0..rng.range(3, 12) {
                out.push(*rng.pick(ALPHA_LOWER));
            }
            out.extend_from_slice(b".example/01/");
            let body = digits(rng, 13);
            out.extend_from_slice(&body);
            out.push(gs1_check(&body));
            (out, false)
        }
    }
}

fn rough_capacity(s: &SizeInfo) -> usize {
    // bytes that surely fit with Base256; digits pack 2:1, C40-like 3:2
    s.n_data.saturating_sub(3).max(1)
}

/// A Msg producer that actually fits `s` (forced via a single-size list), else Raw.
/// Positions in a real encoder output where the stream's structure lives: pad start, latches, unlatches,
/// ECI / macro / FNC1 codewords, codewords that merely look like a pad - and their neighbours.
fn stream_landmarks(data: &[u8]) -> Vec<usize> {
    let mut out: Vec<usize> = Vec::new();
    for (i, b) in data.iter().enumerate() {
        if matches!(*b, 129 | 230..=241 | 254) {
            for j in i.saturating_sub(1)..=(i + 1).min(data.len() - 1) {
                if !out.contains(&j) {
                    out.push(j);
                }
            }
        }
    }
    out
}

fn msg_producer_for_size(rng: &mut Rng, s: &SizeInfo, eci: Option<u32>) -> Producer {
    msg_producer_for_size_d(rng, s, eci).0
}

fn msg_producer_for_size_d(rng: &mut Rng, s: &SizeInfo, eci: Option<u32>) -> (Producer, Vec<u8>) {
    let cap = rough_capacity(s);
    let fill = rng.range(1, 2 * cap);
    let structured = eci.is_none() && rng.chance(1, 6);
    let (mut msg, fnc1_structured) = if structured { gen_structured_message(rng, fill) } else { (gen_message(rng, fill), false) };
    let modes = if rng.chance(3, 4) { 0x3F } else { (rng.range(1, 0x3F) as u8) | 1 };
    let macros = rng.chance(3, 4);
    let fnc1 = if structured { fnc1_structured } else { rng.chance(1, 8) };
    for _ in 0..5 {
        match produce_msg(&msg, &ListSpec::Single(s.idx), modes, macros, fnc1, eci) {
            Ok(Some((_, data, _))) => {
                return (Producer::Msg { msg, list: ListSpec::Single(s.idx), modes, macros, fnc1, eci }, data);
            }
            _ => {
                let nl = msg.len() / 2;
                msg.truncate(nl);
            }
        }
    }
    (Producer::Raw { size: s.idx, data: raw_data(rng, s) }, Vec::new())
}

/// Substitution by a valid message: the sender encodes message A; within the correction radius the medium
/// overwrites data codewords with what ANOTHER message B (empty, a prefix or suffix of A, A with one byte
/// changed, an unrelated one) produces at the same positions in the same symbol size, so that the damaged
/// data part looks - in part or completely - like a well-formed stream of its own (e.g. nothing but
/// correctly randomised padding). Error correction must still restore A.
pub fn impostor_faults(
    s: &SizeInfo,
    data_a: &[u8],
    data_b: &[u8],
    order: usize,
    limit: Option<usize>,
) -> Vec<Fault> {
    let n = data_a.len().min(data_b.len()).min(s.n_data);
    let mut diffs: Vec<usize> = (0..n).filter(|i| data_a[*i] != data_b[*i]).collect();
    if order == 1 {
        diffs.reverse();
    }
    let mut per_block = vec![0usize; s.blocks];
    let mut out = Vec::new();
    for p in diffs {
        if let Some(l) = limit {
            if out.len() >= l {
                break;
            }
        }
        let b = s.block_of(p);
        if per_block[b] < s.t() {
            per_block[b] += 1;
            out.push(Fault::new("cw_impostor", Op::CwSet { pos: p as u32, val: data_b[p] }));
        }
    }
    out
}

fn impostor_trace(rng: &mut Rng, s: &SizeInfo) -> Option<Trace> {
    let cap = rough_capacity(s);
    let len = if rng.chance(2, 3) { rng.range(1, (2 * s.t()).min(cap).max(1)) } else { rng.range(1, 2 * cap) };
    let mut msg = gen_message(rng, len);
    let modes = if rng.chance(3, 4) { 0x3F } else { (rng.range(1, 0x3F) as u8) | 1 };
    let macros = rng.chance(3, 4);
    let list = ListSpec::Single(s.idx);
    let mut data_a = None;
    for _ in 0..5 {
        match produce_msg(&msg, &list, modes, macros, false, None) {
            Ok(Some((_, d, _))) => {
                data_a = Some(d);
                break;
            }
            _ => {
                let nl = msg.len() / 2;
                msg.truncate(nl);
            }
        }
    }
    let data_a = data_a?;
    let other: Vec<u8> = match rng.below(6) {
        0 | 1 => Vec::new(),
        2 => msg[..rng.below(msg.len().max(1))].to_vec(),
        3 => msg[rng.below(msg.len().max(1))..].to_vec(),
        4 => {
            let mut m = msg.clone();
            if !m.is_empty() {
                let i = rng.below(m.len());
                m[i] = gen_message(rng, 1).first().copied().unwrap_or(b'A');
            }
            m
        }
        _ => {
            let l = rng.range(0, msg.len() + 2);
            gen_message(rng, l)
        }
    };
    let data_b = match produce_msg(&other, &list, modes, macros, false, None) {
        Ok(Some((_, d, _))) => d,
        _ => return None,
    };
    let order = rng.below(2);
    let limit = if rng.chance(1, 4) { Some(rng.range(1, s.t())) } else { None };
    let faults = impostor_faults(s, &data_a, &data_b, order, limit);
    if faults.is_empty() {
        return None;
    }
    Some(Trace { prop: "C03".into(), producer: Producer::Msg { msg, list, modes, macros, fnc1: false, eci: None }, faults })
}

fn producer_for_size(rng: &mut Rng, s: &SizeInfo, msg_pct: usize) -> Producer {
    producer_for_size_d(rng, s, msg_pct).0
}

fn producer_for_size_d(rng: &mut Rng, s: &SizeInfo, msg_pct: usize) -> (Producer, Vec<u8>) {
    let pct = if s.n_data > 200 { msg_pct / 5 } else { msg_pct };
    if rng.below(100) < pct {
        msg_producer_for_size_d(rng, s, None)
    } else {
        (Producer::Raw { size: s.idx, data: raw_data(rng, s) }, Vec::new())
    }
}

// ---------------- codeword-level fault construction ----------------

fn value_fault(rng: &mut Rng, vk: ValKind, label: Option<&str>, pos: usize) -> Fault {
    let (kind, op) = match vk {
        ValKind::Subst => ("cw_subst", Op::CwXor { pos: pos as u32, mask: rng.nonzero_byte() }),
        ValKind::BitFlip => ("cw_bitflip", Op::CwXor { pos: pos as u32, mask: 1u8 << rng.below(8) }),
        ValKind::Stuck00 => ("cw_stuck00", Op::CwSet { pos: pos as u32, val: 0 }),
        ValKind::StuckFF => ("cw_stuckFF", Op::CwSet { pos: pos as u32, val: 0xFF }),
    };
    Fault::new(label.unwrap_or(kind), op)
}

fn pick_valkind(rng: &mut Rng) -> ValKind {
    match rng.below(10) {
        0..=5 => ValKind::Subst,
        6 | 7 => ValKind::BitFlip,
        8 => ValKind::Stuck00,
        _ => ValKind::StuckFF,
    }
}

fn region_candidates(s: &SizeInfo, b: usize, region: Region) -> Vec<usize> {
    let all = s.block_positions(b);
    let nd = s.block_data_len(b);
    match region {
        Region::Data => all[..nd].to_vec(),
        Region::Ec => all[nd..].to_vec(),
        Region::Both => all,
    }
}

/// `count` positions of block `b` (count is clamped to what the region offers).
fn pick_block_positions(
    rng: &mut Rng,
    s: &SizeInfo,
    b: usize,
    count: usize,
    region: Region,
    pat: PosPattern,
) -> Vec<usize> {
    let cand = region_candidates(s, b, region);
    let count = count.min(cand.len());
    if count == 0 {
        return vec![];
    }
    match pat {
        PosPattern::Uniform => rng
            .sample_distinct(cand.len(), count)
            .into_iter()
            .map(|i| cand[i])
            .collect(),
        PosPattern::BlockBurst => {
            let start = rng.range(0, cand.len() - count);
            cand[start..start + count].to_vec()
        }
        PosPattern::Edge => {
            // boundary positions of the strided index arithmetic first, then fill uniformly
            let all = s.block_positions(b);
            let nd = s.block_data_len(b);
            let mut edges: Vec<usize> = vec![all[0], all[nd - 1], all[nd], all[all.len() - 1]];
            if nd >= 2 {
                edges.push(all[nd - 2]);
            }
            edges.push(all[all.len() - 2]);
            edges.retain(|p| cand.contains(p));
            edges.dedup();
            let mut out: Vec<usize> = Vec::new();
            let ne = rng.range(1, edges.len().max(1)).min(count).min(edges.len());
            for i in rng.sample_distinct(edges.len(), ne) {
                if !out.contains(&edges[i]) {
                    out.push(edges[i]);
                }
            }
            let mut guard = 0;
            while out.len() < count && guard < 10 * count + 20 {
                let p = cand[rng.below(cand.len())];
                if !out.contains(&p) {
                    out.push(p);
                }
                guard += 1;
            }
            out
        }
    }
}

/// Error positions forming complete cosets of a multiplicative subgroup of GF(256)*: e | 255 positions whose
/// polynomial degrees are d, d + 255/e, d + 2*255/e, ... - their locator polynomial is the binomial x^e + b
/// (only two non-zero coefficients). Unions of two cosets give other sparse locators. Needs a block long enough.
fn coset_positions(rng: &mut Rng, s: &SizeInfo, b: usize, max_errors: usize) -> Option<Vec<usize>> {
    coset_groups(rng, s, b, max_errors).map(|g| g.into_iter().flatten().collect())
}

/// Complete cosets of multiplicative subgroups as error positions, grouped by coset: one or two cosets of
/// possibly different orders, or MANY cosets of the same order e (as many as the weight allows) - with equal
/// values inside each coset every syndrome S_j with e not dividing j vanishes, so the locator search takes one
/// singular jump per coset.
fn coset_groups(rng: &mut Rng, s: &SizeInfo, b: usize, max_errors: usize) -> Option<Vec<Vec<usize>>> {
    let pos = s.block_positions(b);
    let nb = pos.len();
    let mut out: Vec<Vec<usize>> = Vec::new();
    let mut used: Vec<usize> = Vec::new();
    let many = rng.chance(1, 3);
    let n_cosets = if many { usize::MAX } else if rng.chance(2, 3) { 1 } else { 2 };
    let mut order: Option<usize> = None;
    let mut tries = 0;
    while out.len() < n_cosets && tries < 200 {
        tries += 1;
        let cands: Vec<usize> = [3usize, 5, 15, 17, 51]
            .iter()
            .copied()
            .filter(|e| used.len() + *e <= max_errors && (*e - 1) * (255 / *e) < nb)
            .filter(|e| !many || order.map_or(true, |o| o == *e))
            .collect();
        if cands.is_empty() {
            break;
        }
        let e = if many && order.is_none() && rng.chance(1, 2) { cands[0] } else { *rng.pick(&cands) };
        order = Some(e);
        let stride = 255 / e;
        let span = (e - 1) * stride;
        let d0 = rng.range(0, (nb - 1 - span).min(stride - 1));
        let group: Vec<usize> = (0..e).map(|i| pos[nb - 1 - (d0 + i * stride)]).collect();
        if group.iter().any(|p| used.contains(p)) {
            continue;
        }
        used.extend(group.iter().copied());
        out.push(group);
        if many && rng.chance(1, 12) {
            break;
        }
    }
    if out.is_empty() {
        None
    } else {
        Some(out)
    }
}

/// Per-block error weights for a bounded-damage (C03) profile.
fn bounded_weights(rng: &mut Rng, s: &SizeInfo) -> Vec<usize> {
    let t = s.t();
    let nb = s.blocks;
    let mut w = vec![0usize; nb];
    match rng.below(13) {
        12 => {
            // every block the same small weight (1, 2 or 3 errors in each block at once)
            let small = rng.range(1, 3.min(t));
            for x in w.iter_mut() {
                *x = small;
            }
        }
        0..=2 => {
            for x in w.iter_mut() {
                *x = t;
            }
        }
        3..=5 => {
            w[rng.below(nb)] = t;
        }
        6 | 7 => {
            w[rng.below(nb)] = rng.range(1, t);
        }
        8 | 9 => {
            for x in w.iter_mut() {
                *x = rng.range(0, t);
            }
        }
        10 => {
            w[rng.below(nb)] = 1;
        }
        _ => {
            // last block(s) loaded: the short blocks of 144x144 and the largest offsets
            let b = nb - 1 - rng.below(nb.min(2));
            w[b] = t;
        }
    }
    w
}

fn pick_region(rng: &mut Rng) -> Region {
    match rng.below(10) {
        0..=2 => Region::Data,
        3..=6 => Region::Ec,
        _ => Region::Both,
    }
}

fn pick_pattern(rng: &mut Rng) -> PosPattern {
    match rng.below(10) {
        0..=4 => PosPattern::Uniform,
        5..=6 => PosPattern::BlockBurst,
        _ => PosPattern::Edge,
    }
}

fn pattern_label(p: PosPattern) -> Option<&'static str> {
    match p {
        PosPattern::Uniform => None,
        PosPattern::BlockBurst => Some("cw_block_burst"),
        PosPattern::Edge => Some("cw_edge"),
    }
}

/// Codeword faults with the given per-block weights.
fn weighted_cw_faults(rng: &mut Rng, s: &SizeInfo, weights: &[usize], faults: &mut Vec<Fault>) -> Vec<usize> {
    let region = pick_region(rng);
    let pat = pick_pattern(rng);
    let vk = pick_valkind(rng);
    let mut positions = Vec::new();
    // sometimes every error has the same value (equal error values are a corner of the value solver)
    let same_mask = if vk == ValKind::Subst && rng.chance(1, 8) { Some(rng.nonzero_byte()) } else { None };
    for (b, w) in weights.iter().enumerate() {
        if *w == 0 {
            continue;
        }
        for p in pick_block_positions(rng, s, b, *w, region, pat) {
            match same_mask {
                Some(m) => faults.push(Fault::new(pattern_label(pat).unwrap_or("cw_subst"), Op::CwXor { pos: p as u32, mask: m })),
                None => faults.push(value_fault(rng, vk, pattern_label(pat), p)),
            }
            positions.push(p);
        }
    }
    positions
}

/// A burst of L consecutive codewords in transmission order, trimmed to the per-block budget.
fn burst_faults(rng: &mut Rng, s: &SizeInfo, budget: Option<usize>, faults: &mut Vec<Fault>) {
    let n = s.n_total();
    let maxl = match budget {
        Some(t) => (t * s.blocks).max(1),
        None => n,
    };
    let l = rng.range(1, maxl.min(n));
    let start = rng.range(0, n - l);
    let mut per_block = vec![0usize; s.blocks];
    let vk = pick_valkind(rng);
    for p in start..start + l {
        let b = s.block_of(p);
        if let Some(t) = budget {
            if per_block[b] >= t {
                continue;
            }
        }
        per_block[b] += 1;
        faults.push(value_fault(rng, vk, Some("cw_burst"), p));
    }
}

/// Periodic damage in transmission order (round 24): the same wrong value - or the same XOR mask - at positions
/// p, p + P, p + 2P, ... of the interleaved codeword stream: a repeating print defect, a dead sensor column. The
/// periods are the ones arithmetic cares about: 255 (the order of alpha: x^p and x^(p+255) evaluate alike at every
/// field element, so anything that evaluates the interleaved stream as ONE polynomial sees equal masks cancel),
/// its divisors, the powers of two, the block count times small numbers. Within `budget` errors per block if given.
fn periodic_faults(rng: &mut Rng, s: &SizeInfo, budget: Option<usize>, faults: &mut Vec<Fault>) -> bool {
    let n = s.n_total();
    const PERIODS: [usize; 12] = [255, 255, 255, 510, 85, 51, 17, 256, 128, 64, 254, 127];
    let mut period = *rng.pick(&PERIODS);
    if rng.chance(1, 6) {
        period = s.blocks * rng.range(1, 40) + if rng.chance(1, 2) { 1 } else { 0 };
    }
    if period == 0 || period >= n {
        return false;
    }
    let trains = rng.range(1, 3);
    let mut per_block = vec![0usize; s.blocks];
    let mut used: Vec<usize> = Vec::new();
    for _ in 0..trains {
        let start = rng.below(period.min(n));
        let max_len = (n - 1 - start) / period + 1;
        let len = if rng.chance(1, 2) { 2.min(max_len) } else { rng.range(1, max_len) };
        let first = rng.below(max_len - len + 1);
        let same_mask = !rng.chance(1, 5);
        let mask = rng.nonzero_byte();
        let set_val: Option<u8> = if rng.chance(1, 6) { Some(*rng.pick(&[0u8, 0xFF, 129])) } else { None };
        for i in first..first + len {
            let p = start + i * period;
            let b = s.block_of(p);
            if used.contains(&p) {
                continue;
            }
            if let Some(t) = budget {
                if per_block[b] >= t {
                    continue;
                }
            }
            per_block[b] += 1;
            used.push(p);
            let op = match set_val {
                Some(v) => Op::CwSet { pos: p as u32, val: v },
                None => Op::CwXor { pos: p as u32, mask: if same_mask { mask } else { rng.nonzero_byte() } },
            };
            faults.push(Fault::new("cw_burst", op));
        }
    }
    !faults.is_empty()
}

/// Errors inside the radius whose values are solved so that the syndromes take a
/// "statistically rare" shape: leading zeros, or a singular leading Hankel minor.
fn cancel_faults(ctx: &Ctx, rng: &mut Rng, s: &SizeInfo, faults: &mut Vec<Fault>) -> bool {
    cancel_faults_w(ctx, rng, s, faults, false)
}

/// `beyond`: the same tuning of values, but with t+1 .. t+4 errors (outside the radius): words that are
/// uncorrectable AND drive the locator search through its rare branches.
fn cancel_faults_w(ctx: &Ctx, rng: &mut Rng, s: &SizeInfo, faults: &mut Vec<Fault>, beyond: bool) -> bool {
    let t = s.t();
    let k = s.k;
    if t < 2 || !ctx.gf_ok[s.idx] {
        return false;
    }
    let gf = &ctx.gf;
    let b = rng.below(s.blocks);
    let pos = s.block_positions(b);
    let nb = pos.len();
    let mode = rng.below(3);
    // the linear mode is cheap for any weight (favour full weight t); the determinant search is kept small
    let e = if beyond {
        rng.range(t + 1, (t + 4).min(k))
    } else if mode == 0 {
        if rng.chance(1, 2) { t } else { rng.range(2, t) }
    } else if rng.chance(1, 3) && t <= 12 {
        t
    } else {
        rng.range(2, t.min(8))
    };
    let region = pick_region(rng);
    let chosen = pick_block_positions(rng, s, b, e, region, PosPattern::Uniform);
    let e = chosen.len();
    if e < 2 {
        return false;
    }
    // locator X = alpha^degree
    let xs: Vec<u8> = chosen
        .iter()
        .map(|p| {
            let idx = pos.iter().position(|q| q == p).unwrap();
            gf.alpha_pow(nb - 1 - idx)
        })
        .collect();
    // which syndromes (1-based) are forced to zero: a prefix, a suffix (the LAST ones), a window, both ends,
    // or a random subset
    let zero_set = |rng: &mut Rng, m: usize| -> Vec<usize> {
        let m = m.min(k);
        match rng.below(11) {
            10 => {
                // an arithmetic progression of indices (every 2nd / 3rd / 4th syndrome), from a random offset
                let d = rng.range(2, 4);
                let o = rng.range(1, d);
                (0..m).map(|i| o + i * d).filter(|j| *j <= k).collect()
            }
            0..=4 => (1..=m).collect(),
            5 | 6 => (k - m + 1..=k).collect(),
            7 => {
                let a = rng.range(1, k - m + 1);
                (a..a + m).collect()
            }
            8 => {
                let p = rng.range(0, m);
                (1..=p).chain(k - (m - p) + 1..=k).collect()
            }
            _ => {
                let mut v = rng.sample_distinct(k, m);
                v.sort();
                v.into_iter().map(|x| x + 1).collect()
            }
        }
    };
    // solve the unknown values ys[u], u in `unknown`, so that S_j = 0 for j in `zeros` given the other values
    let solve_zeros = |ys: &mut Vec<u8>, unknown: &[usize], zeros: &[usize]| -> bool {
        let m = unknown.len();
        if m == 0 {
            return true;
        }
        let mut a = vec![0u8; m * m];
        let mut rhs = vec![0u8; m];
        for (r, j) in zeros.iter().enumerate() {
            for (c, u) in unknown.iter().enumerate() {
                a[r * m + c] = gf_pow(gf, xs[*u], *j);
            }
            let mut acc = 0u8;
            for i in 0..xs.len() {
                if !unknown.contains(&i) {
                    acc ^= gf.mul(ys[i], gf_pow(gf, xs[i], *j));
                }
            }
            rhs[r] = acc;
        }
        match gf.solve(&a, &rhs, m) {
            Some(sol) => {
                for (c, u) in unknown.iter().enumerate() {
                    ys[*u] = sol[c];
                }
                true
            }
            None => false,
        }
    };
    let mut ys = vec![0u8; e];
    if mode == 0 {
        // m < e chosen syndromes vanish: fix the last e-m values, solve the first m
        let m = if beyond {
            rng.range(1, (e - 1).min(k - 1))
        } else if rng.chance(2, 5) {
            e - 1
        } else {
            rng.range(1, e - 1)
        };
        let zeros = zero_set(rng, m);
        let m = zeros.len();
        for y in ys.iter_mut().skip(m) {
            *y = rng.nonzero_byte();
        }
        let unknown: Vec<usize> = (0..m).collect();
        if !solve_zeros(&mut ys, &unknown, &zeros) {
            return false;
        }
    } else {
        // a singular leading minor H_v (1 <= v < e), optionally TOGETHER with some vanishing syndromes:
        // search the last value, solving the linear part for every candidate
        let v = if beyond {
            rng.range(1, (e - 1).min(t - 1).min(6))
        } else if mode == 1 {
            rng.range(1, (e - 1).min(3))
        } else if rng.chance(1, 2) {
            (e - 1).min(12)
        } else {
            rng.range(1, (e - 1).min(12))
        };
        let need = 2 * v - 1;
        if need > k {
            return false;
        }
        let m = if e >= 3 && rng.chance(1, 2) { rng.range(1, (e - 2).min(4)) } else { 0 };
        let zeros = if m > 0 { zero_set(rng, m) } else { vec![] };
        let m = zeros.len();
        let unknown: Vec<usize> = (0..m).collect();
        for y in ys.iter_mut().take(e - 1).skip(m) {
            *y = rng.nonzero_byte();
        }
        let mut found = false;
        let start = rng.below(255);
        for off in 0..255 {
            let cand = 1 + ((start + off) % 255) as u8;
            ys[e - 1] = cand;
            if !solve_zeros(&mut ys, &unknown, &zeros) {
                continue;
            }
            let syn: Vec<u8> = (1..=need.max(1))
                .map(|j| {
                    let mut acc = 0u8;
                    for i in 0..e {
                        acc ^= gf.mul(ys[i], gf_pow(gf, xs[i], j));
                    }
                    acc
                })
                .collect();
            if gf.hankel_det(&syn, v) == 0 {
                found = true;
                break;
            }
        }
        if !found {
            return false;
        }
    }
    for (p, y) in chosen.iter().zip(ys.iter()) {
        if *y != 0 {
            faults.push(Fault::new("cw_cancel", Op::CwXor { pos: *p as u32, mask: *y }));
        }
    }
    true
}

/// Add a random multiple of prod_{i in roots}(x - alpha^i) to one block: the syndromes S_i, i in roots,
/// stay consistent with "no error", the others (almost surely) do not.
fn aligned_faults(ctx: &Ctx, rng: &mut Rng, s: &SizeInfo, b: usize, roots: &[usize], faults: &mut Vec<Fault>) -> bool {
    // `roots` are 1-based indices into the roots of the generator the crate's encoder actually uses
    // (sorted by discrete log: index i is alpha^i for the standard's code)
    let enc_roots = match ctx.enc_gen[s.idx].as_ref() {
        Some((_, r)) if r.len() == s.k => r,
        _ => return false,
    };
    let gf = &ctx.gf;
    let pos = s.block_positions(b);
    let nb = pos.len();
    let j = roots.len();
    if j + 1 > nb {
        return false;
    }
    let mut g = vec![1u8];
    for i in roots {
        let a = enc_roots[(*i - 1).min(s.k - 1)];
        let mut ng = vec![0u8; g.len() + 1];
        for (d, c) in g.iter().enumerate() {
            ng[d] ^= *c;
            ng[d + 1] ^= gf.mul(*c, a);
        }
        g = ng;
    }
    let max_m = nb - j; // number of coefficients of the multiplier
    let m_len = match rng.below(4) {
        0 => 1,
        1 => rng.range(1, max_m.min(4)),
        _ => rng.range(1, max_m),
    };
    let mut m: Vec<u8> = (0..m_len).map(|_| rng.byte()).collect();
    if m[0] == 0 {
        m[0] = rng.nonzero_byte();
    }
    let prod = gf.poly_mul(&m, &g); // length m_len + j <= nb
    let shift = rng.range(0, nb - prod.len()); // multiply by x^shift
    let offset = nb - prod.len() - shift;
    for (i, c) in prod.iter().enumerate() {
        if *c != 0 {
            faults.push(Fault::new("cw_aligned", Op::CwXor { pos: pos[offset + i] as u32, mask: *c }));
        }
    }
    true
}

/// "Ghost" errors: give one block the syndromes of errors at polynomial degrees >= block length,
/// i.e. at positions that do not exist in the shortened code (only the EC part is touched).
/// Optionally accompanied by real errors so that ghosts + real <= t: the locator is perfectly
/// consistent, only the range check on the located positions can tell.
fn ghost_faults(ctx: &Ctx, rng: &mut Rng, s: &SizeInfo, b: usize, faults: &mut Vec<Fault>) -> bool {
    if std::env::var_os("DMSIM_NO_GHOST").is_some() {
        return false;
    }
    // the generator the crate's encoder actually uses (the standard's when the encoder conforms)
    let g = match ctx.enc_gen[s.idx].as_ref() {
        Some((g, _)) if g.len() == s.k + 1 => g.clone(),
        _ => return false,
    };
    let gf = &ctx.gf;
    let pos = s.block_positions(b);
    let nb = pos.len();
    let t = s.t();
    let n_ghosts = if rng.chance(2, 3) { 1 } else { rng.range(1, t.min(3)) };
    let mut degs: Vec<usize> = Vec::new();
    for _ in 0..n_ghosts {
        let d = match rng.below(6) {
            0 | 1 => nb,     // one position in front of the first codeword
            2 => nb + 1,
            3 => 254,        // the last element of the multiplicative group
            _ => rng.range(nb, 254),
        };
        if !degs.contains(&d) {
            degs.push(d);
        }
    }
    for d in &degs {
        let r = gf.monomial_mod(rng.nonzero_byte(), *d, &g);
        for (j, c) in r.iter().enumerate() {
            if *c != 0 {
                faults.push(Fault::new("cw_ghost", Op::CwXor { pos: pos[nb - s.k + j] as u32, mask: *c }));
            }
        }
    }
    // real companions
    let room = t.saturating_sub(degs.len());
    if room > 0 && rng.chance(1, 2) {
        let v = rng.range(0, room);
        for p in pick_block_positions(rng, s, b, v, Region::Both, PosPattern::Uniform) {
            faults.push(value_fault(rng, ValKind::Subst, None, p));
        }
    }
    true
}

fn gf_pow(gf: &crate::gf::Gf, x: u8, j: usize) -> u8 {
    if x == 0 {
        return if j == 0 { 1 } else { 0 };
    }
    gf.exp[(gf.log[x as usize] as usize * j) % 255]
}

/// "Phantom" damage: `e` real errors in one block whose first L syndromes coincide with the syndromes of a
/// different, smaller error pattern (the phantom: u < e locators anywhere in the field, including positions
/// outside the shortened block and alpha^0). The locator search first locks onto the phantom, sees zero
/// discrepancies for a stretch (consecutive singular leading minors, wide singular jumps) and only then meets
/// the truth. Values are obtained by solving a linear system, so any weight up to t (in radius) or beyond works.
fn phantom_faults(ctx: &Ctx, rng: &mut Rng, s: &SizeInfo, b: usize, in_radius: bool, faults: &mut Vec<Fault>) -> bool {
    if !ctx.gf_ok[s.idx] {
        return false;
    }
    let gf = &ctx.gf;
    let t = s.t();
    let pos = s.block_positions(b);
    let nb = pos.len();
    let e = if in_radius {
        if t < 3 {
            return false;
        }
        if rng.chance(1, 2) { t } else { rng.range(3, t) }
    } else {
        rng.range(t + 1, (t + 3).min(nb).min(s.k))
    };
    let u = rng.range(1, ((e - 1) / 2).min(3).max(1));
    // prefix length: at least 2u+1 so that the phantom is fully "believed", at most e (unknowns) and k
    let lmax = e.min(s.k);
    if 2 * u + 1 > lmax {
        return false;
    }
    let l = match rng.below(3) {
        0 => lmax,
        1 => 2 * u + 1,
        _ => rng.range(2 * u + 1, lmax),
    };
    // phantom locators and values
    let mut px: Vec<u8> = Vec::new();
    while px.len() < u {
        let x = match rng.below(4) {
            0 => 1u8, // alpha^0: the last EC codeword of the block
            1 => gf.alpha_pow(rng.range(nb, 254)), // outside the shortened block
            _ => gf.alpha_pow(rng.below(nb)),
        };
        if !px.contains(&x) {
            px.push(x);
        }
    }
    let pc: Vec<u8> = (0..u).map(|_| rng.nonzero_byte()).collect();
    // real positions
    let region = pick_region(rng);
    let chosen = pick_block_positions(rng, s, b, e, region, PosPattern::Uniform);
    if chosen.len() < l {
        return false;
    }
    let e = chosen.len();
    let xs: Vec<u8> = chosen
        .iter()
        .map(|p| gf.alpha_pow(nb - 1 - pos.iter().position(|q| q == p).unwrap()))
        .collect();
    let mut ys = vec![0u8; e];
    for y in ys.iter_mut().skip(l) {
        *y = rng.nonzero_byte();
    }
    let mut a = vec![0u8; l * l];
    let mut rhs = vec![0u8; l];
    for j in 0..l {
        for i in 0..l {
            a[j * l + i] = gf_pow(gf, xs[i], j + 1);
        }
        let mut acc = 0u8;
        for q in 0..u {
            acc ^= gf.mul(pc[q], gf_pow(gf, px[q], j + 1));
        }
        for i in l..e {
            acc ^= gf.mul(ys[i], gf_pow(gf, xs[i], j + 1));
        }
        rhs[j] = acc;
    }
    match gf.solve(&a, &rhs, l) {
        Some(sol) => ys[..l].copy_from_slice(&sol),
        None => return false,
    }
    for (p, y) in chosen.iter().zip(ys.iter()) {
        if *y != 0 {
            faults.push(Fault::new("cw_phantom", Op::CwXor { pos: *p as u32, mask: *y }));
        }
    }
    true
}

/// A crafted syndrome vector realised by changing only the EC part of one block (every syndrome vector is
/// realisable that way): the syndromes of a genuine v-error pattern (v < t), continued by their own order-v
/// recurrence, with one or two discrepancies injected at indices around the decoder's natural boundaries
/// (2v, t, t+v, k-v, k). Far outside the radius in Hamming terms, yet almost consistent for an LFSR-synthesis
/// decoder.
fn syndrome_faults(ctx: &Ctx, rng: &mut Rng, s: &SizeInfo, b: usize, faults: &mut Vec<Fault>) -> bool {
    if !ctx.gf_ok[s.idx] {
        return false;
    }
    let gf = &ctx.gf;
    let t = s.t();
    let k = s.k;
    let pos = s.block_positions(b);
    let nb = pos.len();
    if t < 2 {
        return false;
    }
    let flavour = rng.below(20);
    // order of the recurrence: usually below t, sometimes t, t+1 or t+2
    let v = if flavour == 19 { rng.range(t, (t + 2).min(k - 1)) } else if rng.chance(1, 5) { rng.range(1, 2.min(t - 1)) } else { rng.range(1, t - 1) };
    let mut syn: Vec<u8>;
    // (0-based start, length) of a window of the genuine pattern's own syndromes that was solved to vanish
    let mut own_zero: Option<(usize, usize)> = None;
    let mut poly: Vec<u8>; // x^v + p_{v-1} x^{v-1} + ... + p_0, highest degree first
    if flavour >= 16 {
        // an arbitrary linear recurrence. Either random taps (the "locator" may have roots outside the
        // block positions, the root 0 when the constant tap is 0, or no roots at all), or a polynomial that
        // splits completely over in-block locators but is NOT squarefree (a double or triple root).
        poly = vec![1u8];
        if flavour == 16 || (flavour == 17 && rng.chance(1, 2)) {
            let mut roots: Vec<u8> = Vec::new();
            while roots.len() < v {
                let x = gf.alpha_pow(nb - 1 - rng.below(nb));
                roots.push(x);
                if roots.len() < v && rng.chance(1, 2) {
                    roots.push(x); // repeated
                }
            }
            if v >= 2 && roots.iter().collect::<std::collections::BTreeSet<_>>().len() == v {
                roots[1] = roots[0];
            }
            for x in &roots {
                let mut np = vec![0u8; poly.len() + 1];
                for (d, c) in poly.iter().enumerate() {
                    np[d] ^= *c;
                    np[d + 1] ^= gf.mul(*c, *x);
                }
                poly = np;
            }
        } else {
            for _ in 0..v {
                poly.push(if rng.chance(1, 8) { 0 } else { rng.byte() });
            }
        }
        syn = (0..k).map(|_| 0u8).collect();
        for j in 0..k {
            if j < v {
                syn[j] = rng.byte();
            } else {
                let mut acc = 0u8;
                for i in 0..v {
                    acc ^= gf.mul(poly[v - i], syn[j - v + i]);
                }
                syn[j] = acc;
            }
        }
    } else {
        // a genuine pattern: v distinct locators, inside the block or (sometimes) some of them outside it
        let mut xs: Vec<u8> = Vec::new();
        let outside = flavour >= 13;
        let idxs = rng.sample_distinct(nb, v.min(nb));
        for i in idxs {
            xs.push(gf.alpha_pow(nb - 1 - i));
        }
        if outside && nb < 255 {
            let n_out = rng.range(1, xs.len());
            for q in 0..n_out {
                let x = gf.alpha_pow(rng.range(nb, 254));
                if !xs.contains(&x) {
                    xs[q] = x;
                }
            }
        }
        let v = xs.len();
        let mut ys: Vec<u8> = (0..v).map(|_| rng.nonzero_byte()).collect();
        if v >= 2 && rng.chance(1, 3) {
            // the genuine pattern's own leading syndromes vanish (values solved for): the decoder starts at a higher
            // order, and whatever it derives from the COUNT of leading zeros meets a crafted tail as well
            let z = if rng.chance(1, 2) { (v - 1).min(4) } else { rng.range(1, (v - 1).min(4)) };
            // (round 24) ... or a window of its syndromes ANYWHERE vanishes - S_a0 .. S_(a0+z-1), preferably where
            // the decoder's acceptance rows live (from t on): a test that takes "these entries are zero" for "this
            // row is trivially satisfied" meets a row that is not
            let a0 = if rng.chance(1, 2) || k < z + 1 {
                1
            } else if rng.chance(2, 3) && t + 1 <= k - z + 1 {
                rng.range(t + 1, k - z + 1)
            } else {
                rng.range(1, k - z + 1)
            };
            let mut a = vec![0u8; z * z];
            let mut rhs = vec![0u8; z];
            for j in 0..z {
                for c in 0..z {
                    a[j * z + c] = gf_pow(gf, xs[c], j + a0);
                }
                let mut acc = 0u8;
                for c in z..v {
                    acc ^= gf.mul(ys[c], gf_pow(gf, xs[c], j + a0));
                }
                rhs[j] = acc;
            }
            if let Some(sol) = gf.solve(&a, &rhs, z) {
                if sol.iter().all(|x| *x != 0) {
                    ys[..z].copy_from_slice(&sol);
                    own_zero = Some((a0 - 1, z));
                }
            }
        }
        syn = (1..=k)
            .map(|j| {
                let mut acc = 0u8;
                for i in 0..v {
                    acc ^= gf.mul(ys[i], gf_pow(gf, xs[i], j));
                }
                acc
            })
            .collect();
        // recurrence S_{j+v} = sum_i p_i S_{j+i}: p from prod (x - X_i)
        poly = vec![1u8];
        for x in &xs {
            let mut np = vec![0u8; poly.len() + 1];
            for (d, c) in poly.iter().enumerate() {
                np[d] ^= *c;
                np[d + 1] ^= gf.mul(*c, *x);
            }
            poly = np;
        }
    }
    let v = poly.len() - 1;
    // poly = [1, p_{v-1}, ..., p_0]; S_{j+v} = sum_{i<v} p_i S_{j+i} (char 2)
    if rng.chance(1, 3) || (own_zero.map_or(false, |(z0, _)| z0 > 0) && rng.chance(1, 2)) {
        // overwrite some syndromes in place WITHOUT continuing the recurrence: the first / last few, or one
        // anywhere, set to zero or to a random value - the rest stays exactly the genuine pattern's
        let m = rng.range(1, 3.min(k - 1));
        let idxs: Vec<usize> = match (own_zero, rng.below(4)) {
            // next to the genuine pattern's own window of zeros: one or two entries one or two places after / before it
            // exactly one entry, one place beyond the window's neighbour: rows of the shape (0, .., 0, x, 0)
            (Some((z0, z)), 0) if z0 + z + 1 < k => vec![z0 + z + 1],
            (Some((z0, z)), 0..=2) => {
                let mut c: Vec<usize> = Vec::new();
                for d in [z0 + z, z0 + z + 1, z0 + z + 2] {
                    if d < k {
                        c.push(d);
                    }
                }
                if z0 >= 1 {
                    c.push(z0 - 1);
                }
                if z0 >= 2 {
                    c.push(z0 - 2);
                }
                if c.is_empty() {
                    vec![rng.below(k)]
                } else {
                    let n = rng.range(1, 2.min(c.len()));
                    rng.sample_distinct(c.len(), n).into_iter().map(|i| c[i]).collect()
                }
            }
            (_, 0 | 1) => (0..m).collect(),
            (_, 2) => (k - m..k).collect(),
            _ => vec![rng.below(k)],
        };
        let zero = rng.chance(2, 3);
        for j in idxs {
            syn[j] = if zero { 0 } else { rng.byte() };
        }
    } else if rng.chance(1, 4) && v >= 1 && v + 2 <= k {
        // a STRUCTURED perturbation of the tail: from some index on, the syndromes are changed by the coefficients of
        // (connection polynomial, or its reciprocal) x (a random polynomial) - every row of the recurrence is violated,
        // but the violations themselves vanish at the locators (or their inverses). A cross-check that evaluates
        // something AT the located positions instead of testing the rows one by one does not see them.
        let cands = [t + v, (t + v).saturating_sub(1), 2 * v, (2 * v).saturating_sub(1), t, t.saturating_sub(1)];
        let a = if rng.chance(3, 4) { *rng.pick(&cands) } else { rng.below(k) };
        let a = a.min(k - 1);
        let room = k - a;
        if room >= v + 1 {
            let m: Vec<u8> = if rng.bit() { poly.clone() } else { poly.iter().rev().copied().collect() };
            let rdeg = room - (v + 1);
            let rlen = if rdeg == 0 { 1 } else { rng.range(1, rdeg + 1) };
            let r: Vec<u8> = (0..rlen).map(|i| if i + 1 == rlen { rng.nonzero_byte() } else { rng.byte() }).collect();
            let d = gf.poly_mul(&m, &r);
            for (i, c) in d.iter().enumerate() {
                if a + i < k {
                    syn[a + i] ^= *c;
                }
            }
        } else {
            let j = rng.below(k);
            syn[j] ^= rng.nonzero_byte();
        }
    } else {
    let n_disc = if rng.chance(3, 4) { 1 } else { 2 };
    for _ in 0..n_disc {
        let cands = [2 * v, 2 * v + 1, t, t + 1, (t + v).saturating_sub(1), t + v, t + v + 1, k.saturating_sub(v), k - 1, k];
        let d = if rng.chance(1, 2) { *rng.pick(&cands) } else { rng.range(1, k) };
        let d = d.clamp(1, k); // 1-based syndrome index
        if rng.chance(1, 3) && syn[d - 1] != 0 {
            // a multiplicative discrepancy: the sequence continues on another scale (alpha^+-1, alpha^+-2: what a
            // carry or wrap in an exponent produces), not with an arbitrary value
            let c = match rng.below(4) {
                0 => 2u8,
                1 => gf.inv(2),
                2 => 4,
                _ => gf.inv(4),
            };
            syn[d - 1] = gf.mul(syn[d - 1], c);
        } else {
            syn[d - 1] ^= rng.nonzero_byte();
        }
        for j in d..k {
            // regenerate S_{j+1} (0-based j) from the previous v values, if available
            if j >= v {
                let mut acc = 0u8;
                for i in 0..v {
                    // coefficient p_i multiplies S_{(j-v)+i}
                    acc ^= gf.mul(poly[v - i], syn[j - v + i]);
                }
                syn[j] = acc;
            }
        }
    }
    }
    // the genuine pattern's own syndromes are already in `syn` except for the discrepancies: realise the
    // DIFFERENCE to "no error" entirely in the EC part: find r (degree < k) with r(alpha^j) = syn_j
    let mut a = vec![0u8; k * k];
    for j in 0..k {
        for d in 0..k {
            a[j * k + d] = gf.alpha_pow((j + 1) * d);
        }
    }
    let r = match gf.solve(&a, &syn, k) {
        Some(r) => r,
        None => return false,
    };
    for (d, c) in r.iter().enumerate() {
        if *c != 0 {
            faults.push(Fault::new("cw_syndrome", Op::CwXor { pos: pos[nb - 1 - d] as u32, mask: *c }));
        }
    }
    true
}

/// Which syndromes (1-based exponents of alpha) an aligned fault keeps at zero.
fn aligned_roots(rng: &mut Rng, s: &SizeInfo) -> Vec<usize> {
    let t = s.t();
    let k = s.k;
    match rng.below(19) {
        17 | 18 => {
            // strided sets: every d-th syndrome consistent (all odd ones, all even ones, every third, ...),
            // or everything BUT such a set - what a test over "half of the syndromes" would look at
            let d = rng.range(2, 4);
            let o = rng.range(1, d);
            let inv = rng.chance(1, 3);
            (1..=k).filter(|j| ((*j + d - o) % d == 0) != inv).collect()
        }
        0 | 1 => (1..=2 * t).collect(),            // on odd k: only the last syndrome can notice
        2 => (1..=k).collect(),                    // lands on another valid codeword
        3 => (1..=rng.range(t, k)).collect(),      // first t syndromes vanish
        4 => (1..=k - 1).collect(),
        5 | 6 => (1..=rng.range(1, k)).collect(),  // prefix
        7 | 8 => {
            // window not starting at 1: S_1 != 0, then a run of zeros (degree-1 locator with zero coefficient)
            let a = 2;
            let b = rng.range(t.min(k), k).max(a);
            (a..=b).collect()
        }
        9 => (2..=t + 1).collect(),
        10 | 11 => {
            let a = rng.range(1, k);
            let b = rng.range(a, k);
            (a..=b).collect()
        }
        12 => (2..=k).collect(), // everything but the first
        13 => {
            // suffix window: the early syndromes see the damage, the late ones do not
            let a = rng.range(2, k);
            (a..=k).collect()
        }
        14 => {
            // two windows: a consistent prefix and a consistent suffix, the middle free
            let a = rng.range(1, k - 2);
            let b = rng.range(a + 2, k);
            (1..=a).chain(b..=k).collect()
        }
        _ => (1..=k).filter(|_| rng.chance(1, 2)).collect(),
    }
}

/// Damage that is correlated across interleaved blocks, as a physical burst is: the same in-block positions
/// hit in two or more consecutive blocks (correctably), and one of those blocks additionally carries crafted
/// uncorrectable damage. Exercises anything a decoder carries over from one block to the next.
fn cross_block_faults(ctx: &Ctx, rng: &mut Rng, s: &SizeInfo, faults: &mut Vec<Fault>) -> bool {
    if s.blocks < 2 {
        return false;
    }
    let t = s.t();
    let nb_min = s.block_len(s.blocks - 1);
    let v = rng.range(1, t - 1);
    let idxs = rng.sample_distinct(nb_min, v);
    // a stripe through two or three neighbouring blocks, or (round 24) through a majority / all of the symbol's blocks
    // with the crafted block among the last: whatever lets the blocks decoded so far "vote" on the next one
    let wide = s.blocks >= 4 && rng.chance(1, 3);
    let (b0, n_blocks) = if wide {
        let nb = rng.range(s.blocks / 2 + 1, s.blocks);
        (rng.below(s.blocks - nb + 1), nb)
    } else {
        let b0 = rng.below(s.blocks - 1);
        (b0, rng.range(2, (s.blocks - b0).min(3)))
    };
    let target = if wide && rng.chance(2, 3) {
        b0 + n_blocks - 1
    } else {
        b0 + rng.range(1, n_blocks - 1).max(1).min(n_blocks - 1) // a block after the first of the group
    };
    let shared: Option<Vec<u8>> = if rng.chance(1, 2) { Some((0..idxs.len()).map(|_| rng.nonzero_byte()).collect()) } else { None };
    for b in b0..b0 + n_blocks {
        let pos = s.block_positions(b);
        for (ii, i) in idxs.iter().enumerate() {
            // positions counted from the END of the block (so they coincide as polynomial degrees); with shared
            // values the blocks' syndrome vectors are identical before the crafted part is added
            let p = pos[pos.len() - 1 - *i];
            let mask = match &shared {
                Some(m) => m[ii],
                None => rng.nonzero_byte(),
            };
            faults.push(Fault::new("cw_burst", Op::CwXor { pos: p as u32, mask }));
        }
    }
    // the crafted part in one block of the group
    match rng.below(4) {
        3 => {
            // consistent with the shared positions for the first t+v (or more) syndromes, then deviating
            let j = rng.range((t + v).min(s.k - 1), s.k - 1);
            let roots: Vec<usize> = (1..=j).collect();
            aligned_faults(ctx, rng, s, target, &roots, faults);
        }
        0 => {
            let a = (2 * v).min(s.k - 2).max(1);
            let lo = if rng.chance(1, 2) && t > a { t } else { rng.range(a + 1, s.k - 1).max(a + 1) };
            let roots: Vec<usize> = (1..=a).chain(lo + 1..=s.k).collect();
            aligned_faults(ctx, rng, s, target, &roots, faults);
        }
        1 => {
            let roots = aligned_roots(rng, s);
            aligned_faults(ctx, rng, s, target, &roots, faults);
        }
        _ => {
            syndrome_faults(ctx, rng, s, target, faults);
        }
    }
    true
}

/// The EC codewords the crate's own encoder computes for `data` (None if it panics or returns a wrong length).
fn real_ec(s: &SizeInfo, data: &[u8]) -> Option<Vec<u8>> {
    if data.len() != s.n_data {
        return None;
    }
    let size = s.size;
    let d = data.to_vec();
    match crate::exec::guard(move || datamatrix::errorcode::encode_error(&d, size)) {
        Ok(ec) if ec.len() == s.n_ec() => Some(ec),
        _ => None,
    }
}

fn producer_data(p: &Producer, s: &SizeInfo) -> Option<Vec<u8>> {
    match p {
        Producer::Raw { data, .. } => Some(data.clone()),
        Producer::Msg { msg, list, modes, macros, fnc1, eci } => match produce_msg(msg, list, *modes, *macros, *fnc1, *eci) {
            Ok(Some((idx, d, _))) if idx == s.idx => Some(d),
            _ => None,
        },
        _ => None,
    }
}

/// A foreign recurrence: one block (the neighbour, or the same block's phantom) defines a connection polynomial
/// C(x) = prod (x - X_p) through v genuine errors; ANOTHER block gets e <= t errors at other positions whose
/// syndromes obey C's recurrence sum_i c_i S_{j+i} = 0 on a chosen set J of rows (a prefix and a late window, all
/// but a middle window, strided, arbitrary) and nowhere else. With |J| < e that is a linear solve; with |J| = e
/// it is possible only for special position sets (a singular generalised Vandermonde matrix, about one set in
/// 255), which are searched for. Within the radius: both blocks must be restored. Anything that carries a locator
/// from one block to the next and verifies it on fewer rows than it should is led astray.
fn foreign_recurrence_faults(ctx: &Ctx, rng: &mut Rng, s: &SizeInfo, faults: &mut Vec<Fault>) -> bool {
    let t = s.t();
    let k = s.k;
    if t < 3 || !ctx.gf_ok[s.idx] {
        return false;
    }
    let gf = &ctx.gf;
    let (b_src, b_dst) = if s.blocks > 1 {
        let d = rng.range(1, s.blocks - 1);
        (d - 1, d)
    } else {
        (0, 0)
    };
    let nb_min = s.block_len(s.blocks - 1);
    // the connection polynomial comes from v genuine errors in the neighbouring block, or (always on single-block
    // sizes) from v phantom locators that no block carries
    let phantom_only = s.blocks == 1 || rng.chance(1, 3);
    let v = if rng.chance(1, 2) { rng.range(1, 4.min(t - 1)) } else { rng.range(1, t - 1) };
    let e = if rng.chance(1, 2) { t } else { rng.range(2, t) };
    if v + e > nb_min || e < 2 {
        return false;
    }
    // rows j (1-based) available: 1..=k-v
    let nrows_avail = k - v;
    let square = rng.chance(1, 2) && e <= nrows_avail;
    let m = if square { e } else { rng.range(1, (e - 1).min(nrows_avail)) };
    let rows: Vec<usize> = match rng.below(5) {
        0 | 1 => {
            // the first v rows and a window starting at row t+1 (what "verify a little at both ends" looks at)
            let a = v.min(m);
            let rest = m - a;
            let start = (t + 1).min(nrows_avail + 1 - rest.max(1)).max(a + 1);
            (1..=a).chain(start..start + rest).filter(|j| *j <= nrows_avail).collect()
        }
        2 => {
            // everything except a middle window
            let a = rng.range(0, m);
            (1..=a).chain(nrows_avail - (m - a) + 1..=nrows_avail).collect()
        }
        3 => {
            let d = rng.range(2, 3);
            (0..m).map(|i| 1 + i * d).filter(|j| *j <= nrows_avail).collect()
        }
        _ => {
            let mut r = rng.sample_distinct(nrows_avail, m);
            r.sort();
            r.into_iter().map(|x| x + 1).collect()
        }
    };
    let m = rows.len();
    if m == 0 {
        return false;
    }
    let tries = if square { (4_000_000 / (e * e * e).max(1)).clamp(20, 300) } else { 3 };
    for _ in 0..tries {
        let degs = rng.sample_distinct(nb_min, v + e);
        let xp: Vec<u8> = degs[..v].iter().map(|d| gf.alpha_pow(*d)).collect();
        let xq: Vec<u8> = degs[v..].iter().map(|d| gf.alpha_pow(*d)).collect();
        // z solves sum_q z_q X_q^j = 0 for j in rows
        let mut z = vec![0u8; e];
        if m == e {
            let mut a = vec![0u8; m * e];
            for (r, j) in rows.iter().enumerate() {
                for c in 0..e {
                    a[r * e + c] = gf_pow(gf, xq[c], *j);
                }
            }
            match gf.kernel_vector(&a, m, e) {
                Some(x) => z = x,
                None => continue,
            }
        } else {
            for zq in z.iter_mut().skip(m) {
                *zq = rng.nonzero_byte();
            }
            let mut a = vec![0u8; m * m];
            let mut rhs = vec![0u8; m];
            for (r, j) in rows.iter().enumerate() {
                for c in 0..m {
                    a[r * m + c] = gf_pow(gf, xq[c], *j);
                }
                let mut acc = 0u8;
                for c in m..e {
                    acc ^= gf.mul(z[c], gf_pow(gf, xq[c], *j));
                }
                rhs[r] = acc;
            }
            match gf.solve(&a, &rhs, m) {
                Some(sol) => z[..m].copy_from_slice(&sol),
                None => continue,
            }
        }
        if z.iter().filter(|x| **x != 0).count() < 2 {
            continue;
        }
        // y_q = z_q / C(X_q), C(x) = prod (x + X_p)
        let pos_src = s.block_positions(b_src);
        let pos_dst = s.block_positions(b_dst);
        if !phantom_only {
            for d in &degs[..v] {
                let p = pos_src[pos_src.len() - 1 - *d];
                faults.push(Fault::new("cw_foreign", Op::CwXor { pos: p as u32, mask: rng.nonzero_byte() }));
            }
        }
        for (qi, d) in degs[v..].iter().enumerate() {
            if z[qi] == 0 {
                continue;
            }
            let mut cx = 1u8;
            for x in &xp {
                cx = gf.mul(cx, xq[qi] ^ *x);
            }
            let y = gf.div(z[qi], cx);
            if y == 0 {
                continue;
            }
            let p = pos_dst[pos_dst.len() - 1 - *d];
            faults.push(Fault::new("cw_foreign", Op::CwXor { pos: p as u32, mask: y }));
        }
        return true;
    }
    false
}

/// A uniform received region. The SENT codeword is chosen (by linear algebra over the encoder's own outputs) so that
/// all but m <= t of one block's EC codewords - or of its data codewords - already hold one value c (0xFF, 0x00, the pad
/// value, arbitrary); the medium sets the remaining m to c as well (stuck-at damage). The received block then shows
/// a solid region - nothing but dark modules, say - although it is within the radius. Whatever reads meaning into the
/// look of the RECEIVED word (a "no redundancy left" bail-out, a blank-region heuristic) is exposed.
fn uniform_region_trace(ctx: &Ctx, rng: &mut Rng, s: &SizeInfo) -> Option<Trace> {
    let t = s.t();
    let k = s.k;
    if t == 0 || !ctx.gf_ok[s.idx] {
        return None;
    }
    let gf = &ctx.gf;
    let b = rng.below(s.blocks);
    let nd = s.block_data_len(b);
    let c: u8 = match rng.below(5) {
        0 | 1 => 0xFF,
        2 => 0x00,
        3 => 129,
        _ => rng.byte(),
    };
    let m = if rng.chance(1, 2) { t } else { rng.range(1, t) };
    let mut data = raw_data(rng, s);
    let mut faults: Vec<Fault> = Vec::new();
    if rng.chance(1, 3) {
        // the data part of the block
        let m = m.min(nd);
        let others = rng.sample_distinct(nd, m);
        for i in 0..nd {
            let p = b + i * s.blocks;
            if others.contains(&i) {
                if data[p] == c {
                    data[p] = c ^ rng.nonzero_byte();
                }
                faults.push(Fault::new("cw_uniform", Op::CwSet { pos: p as u32, val: c }));
            } else {
                data[p] = c;
            }
        }
        return Some(Trace { prop: "C03".into(), producer: Producer::Raw { size: s.idx, data }, faults });
    }
    // the EC part of the block: k - m positions must come out as c
    let keep = k - m;
    if keep > nd {
        return None;
    }
    let j_idx = {
        let mut v = rng.sample_distinct(k, keep);
        v.sort();
        v
    };
    let unknown = rng.sample_distinct(nd, keep); // in-block data indices that are solved for
    for u in &unknown {
        data[b + u * s.blocks] = 0;
    }
    let base = real_ec(s, &data)?;
    // columns: the EC of a unit vector at each unknown position
    let mut cols: Vec<Vec<u8>> = Vec::new();
    for u in &unknown {
        let mut unit = vec![0u8; s.n_data];
        unit[b + u * s.blocks] = 1;
        cols.push(real_ec(s, &unit)?);
    }
    let mut a = vec![0u8; keep * keep];
    let mut rhs = vec![0u8; keep];
    for (r, j) in j_idx.iter().enumerate() {
        let e = b + j * s.blocks;
        for (cc, col) in cols.iter().enumerate() {
            a[r * keep + cc] = col[e];
        }
        rhs[r] = c ^ base[e];
    }
    let sol = gf.solve(&a, &rhs, keep)?;
    for (cc, u) in unknown.iter().enumerate() {
        data[b + u * s.blocks] = sol[cc];
    }
    let ec = real_ec(s, &data)?;
    let mut wrong = 0usize;
    for j in 0..k {
        let e = b + j * s.blocks;
        if j_idx.contains(&j) {
            if ec[e] != c {
                return None; // the field model and the encoder disagree: give up rather than mis-aim
            }
        } else if ec[e] != c {
            wrong += 1;
            faults.push(Fault::new("cw_uniform", Op::CwSet { pos: (s.n_data + e) as u32, val: c }));
        }
    }
    if wrong == 0 || wrong > t {
        return None;
    }
    Some(Trace { prop: "C03".into(), producer: Producer::Raw { size: s.idx, data }, faults })
}

/// Agreement with a phantom on a chosen set of syndromes. e <= t real errors and u = 1 or 2 phantom errors (anywhere in
/// the field) whose syndromes coincide on an index set I with |I| = e + u: S1, S2 and then the odd ones; the odd ones;
/// the even ones; a prefix and then every other one; an arbitrary set. For such a square set a solution exists only on
/// special position sets (a singular generalised Vandermonde matrix, one set in about 255), which are searched for;
/// the real error values are the kernel vector's components. A decoder that recognises a small pattern from a
/// THINNED set of syndromes (half of them, "the others follow") takes the real damage for the phantom.
fn thinned_phantom_faults(ctx: &Ctx, rng: &mut Rng, s: &SizeInfo, faults: &mut Vec<Fault>) -> bool {
    let t = s.t();
    let k = s.k;
    if t < 2 || !ctx.gf_ok[s.idx] {
        return false;
    }
    let gf = &ctx.gf;
    let b = rng.below(s.blocks);
    let pos = s.block_positions(b);
    let nb = pos.len();
    let e = if rng.chance(1, 2) { t } else { rng.range(2, t) };
    let u = if rng.chance(2, 3) { 1 } else { 2 };
    let m = e + u;
    if e > nb {
        return false;
    }
    let idx: Vec<usize> = match rng.below(5) {
        0 | 1 => [1usize, 2].into_iter().chain((0..m).map(|i| 3 + 2 * i)).take(m).collect(),
        2 => (0..m).map(|i| 1 + 2 * i).collect(),
        3 => (0..m).map(|i| 2 + 2 * i).collect(),
        _ => {
            let a = rng.range(1, m - 1);
            (1..=a).chain((0..m - a).map(|i| a + 2 + 2 * i)).collect()
        }
    };
    let idx: Vec<usize> = if idx.iter().all(|j| *j <= k) && idx.len() == m {
        idx
    } else {
        if m > k {
            return false;
        }
        let mut r = rng.sample_distinct(k, m);
        r.sort();
        r.into_iter().map(|x| x + 1).collect()
    };
    let tries = (4_000_000 / (m * m * m).max(1)).clamp(20, 400);
    for _ in 0..tries {
        let degs = rng.sample_distinct(nb, e);
        let mut xs: Vec<u8> = degs.iter().map(|d| gf.alpha_pow(*d)).collect();
        let mut ok = true;
        for _ in 0..u {
            let x = gf.alpha_pow(if rng.chance(1, 2) { rng.below(nb) } else { rng.below(255) });
            if xs.contains(&x) {
                ok = false;
                break;
            }
            xs.push(x);
        }
        if !ok {
            continue;
        }
        let mut a = vec![0u8; m * m];
        for (r, j) in idx.iter().enumerate() {
            for c in 0..m {
                a[r * m + c] = gf_pow(gf, xs[c], *j);
            }
        }
        let x = match gf.kernel_vector(&a, m, m) {
            Some(x) => x,
            None => continue,
        };
        if x[..e].iter().any(|v| *v == 0) || x[e..].iter().all(|v| *v == 0) {
            continue;
        }
        for (qi, d) in degs.iter().enumerate() {
            let p = pos[nb - 1 - *d];
            faults.push(Fault::new("cw_phantom", Op::CwXor { pos: p as u32, mask: x[qi] }));
        }
        return true;
    }
    false
}

/// Near-identical blocks and a difference that moves. Every block of the sent symbol carries the same data (the
/// same polynomial, aligned at the block end; a leading zero in the longer blocks of 144x144) except block a, which
/// differs from the others in m <= t data codewords; the damage flips exactly those codewords in block a AND in
/// another block b, so that the RECEIVED word is again "all blocks alike but one" - with the odd one now b. Within
/// the radius (m errors in each of two blocks). The received word is what another valid layout or another valid
/// message would look like; a decoder that recognises such a word "as is" (a foreign interleaving, a cached block)
/// leaves it unrepaired.
fn moved_difference_trace(rng: &mut Rng, s: &SizeInfo) -> Option<Trace> {
    if s.blocks < 2 {
        return None;
    }
    let t = s.t();
    let nd_min = s.block_data_len(s.blocks - 1);
    let base: Vec<u8> = match rng.below(4) {
        0 => vec![rng.byte(); nd_min],
        _ => rng.bytes(nd_min),
    };
    let mut data = vec![0u8; s.n_data];
    for b in 0..s.blocks {
        let nd = s.block_data_len(b);
        let lead = nd - nd_min; // 0 or 1
        for i in 0..nd_min {
            data[b + (i + lead) * s.blocks] = base[i];
        }
    }
    let a = rng.below(s.blocks);
    let b = match rng.below(5) {
        0 => (a + s.blocks - 1) % s.blocks,
        1 => (a + 1) % s.blocks,
        2 => (a + 2) % s.blocks,
        3 => (a + s.blocks - 2 % s.blocks) % s.blocks,
        _ => rng.below(s.blocks),
    };
    if a == b {
        return None;
    }
    let m = if rng.chance(1, 3) { 1 } else { rng.range(1, t.min(nd_min)) };
    let mut faults = Vec::new();
    for i in rng.sample_distinct(nd_min, m) {
        let mask = rng.nonzero_byte();
        let pa = a + (i + s.block_data_len(a) - nd_min) * s.blocks;
        let pb = b + (i + s.block_data_len(b) - nd_min) * s.blocks;
        data[pa] ^= mask;
        faults.push(Fault::new("cw_twin", Op::CwXor { pos: pa as u32, mask }));
        faults.push(Fault::new("cw_twin", Op::CwXor { pos: pb as u32, mask }));
    }
    Some(Trace { prop: "C03".into(), producer: Producer::Raw { size: s.idx, data }, faults })
}

/// Nested locators. Block B carries v errors, block A carries u > v errors (both within the radius), and A's locator
/// polynomial shares its v + 1 lowest - or its v + 1 highest - coefficients with B's (in either convention: roots at the
/// locators or at their inverses). Found by search: random completions of B's polynomial until one splits into
/// distinct in-block roots. Anything that keys a cache of per-block results on a PREFIX of the locator, or compares
/// two locators only as far as the shorter one reaches, confuses the two blocks.
fn nested_locator_trace(ctx: &Ctx, rng: &mut Rng, s: &SizeInfo) -> Option<Trace> {
    if s.blocks < 2 || !ctx.gf_ok[s.idx] {
        return None;
    }
    let gf = &ctx.gf;
    let t = s.t();
    let nb_min = s.block_len(s.blocks - 1);
    let v = rng.range(1, 3.min(t - 1));
    let u = (v + rng.range(1, 2)).min(t);
    if u <= v {
        return None;
    }
    let inverse = rng.bit();
    let high = rng.bit();
    // B's roots
    let degs_b = rng.sample_distinct(nb_min, v);
    let root_of = |d: usize| -> u8 { if inverse { gf.inv(gf.alpha_pow(d)) } else { gf.alpha_pow(d) } };
    // monic polynomial with the given roots, lowest coefficient first
    let mut pb: Vec<u8> = vec![1];
    for d in &degs_b {
        let r = root_of(*d);
        let mut np = vec![0u8; pb.len() + 1];
        for (i, c) in pb.iter().enumerate() {
            np[i + 1] ^= *c;
            np[i] ^= gf.mul(*c, r);
        }
        pb = np;
    }
    // candidate roots: all in-block locators
    let cand: Vec<(usize, u8)> = (0..nb_min).map(|d| (d, root_of(d))).collect();
    for _ in 0..1500 {
        // A's polynomial (lowest first, degree u, monic)
        let mut pa = vec![0u8; u + 1];
        if high {
            // x^(u-v) * pb + (random of degree < u - v): the v + 1 highest coefficients agree
            for (i, c) in pb.iter().enumerate() {
                pa[i + (u - v)] = *c;
            }
            for c in pa.iter_mut().take(u - v) {
                *c = rng.byte();
            }
        } else {
            // pb + x^(v+1) * random, made monic of degree u: the v + 1 lowest coefficients agree
            for (i, c) in pb.iter().enumerate() {
                pa[i] = *c;
            }
            for c in pa.iter_mut().take(u).skip(v + 1) {
                *c = rng.byte();
            }
            pa[u] = 1;
        }
        if pa[0] == 0 {
            continue;
        }
        let mut roots: Vec<usize> = Vec::new();
        for (d, r) in &cand {
            // evaluate lowest-first
            let mut acc = 0u8;
            for c in pa.iter().rev() {
                acc = gf.mul(acc, *r) ^ *c;
            }
            if acc == 0 {
                roots.push(*d);
                if roots.len() > u {
                    break;
                }
            }
        }
        if roots.len() != u {
            continue;
        }
        let a_blk = rng.below(s.blocks);
        let b_blk = if rng.chance(1, 2) { (a_blk + 1) % s.blocks } else { (a_blk + s.blocks - 1) % s.blocks };
        if a_blk == b_blk {
            return None;
        }
        let mut faults = Vec::new();
        let pos_a = s.block_positions(a_blk);
        let pos_b = s.block_positions(b_blk);
        for d in &roots {
            faults.push(Fault::new("cw_twin", Op::CwXor { pos: pos_a[pos_a.len() - 1 - *d] as u32, mask: rng.nonzero_byte() }));
        }
        for d in &degs_b {
            faults.push(Fault::new("cw_twin", Op::CwXor { pos: pos_b[pos_b.len() - 1 - *d] as u32, mask: rng.nonzero_byte() }));
        }
        return Some(Trace { prop: "C03".into(), producer: Producer::Raw { size: s.idx, data: raw_data(rng, s) }, faults });
    }
    None
}

/// Between two codewords. B is the codeword that differs from the sent codeword A in a few data codewords of one
/// block (and therefore in nearly all EC codewords of that block: a minimum-distance neighbour when it is one data
/// codeword). The medium overwrites a SUBSET of the positions where A and B differ with B's values: within the
/// radius (subset size <= t: A must be restored although every wrong codeword "agrees" with another codeword),
/// or beyond it (the received word lies between the two, nearer to B, or nearer to B with extra damage).
/// The code is linear, so B - A is the encoder's own output for the data difference.
fn toward_faults(rng: &mut Rng, s: &SizeInfo, in_radius: bool, faults: &mut Vec<Fault>) -> bool {
    let t = s.t();
    let b = rng.below(s.blocks);
    let nd = s.block_data_len(b);
    if nd == 0 || t == 0 {
        return false;
    }
    let wd = match rng.below(6) {
        0 => 2.min(nd),
        1 => rng.range(1, 3.min(nd)),
        _ => 1,
    };
    let mut delta = vec![0u8; s.n_data];
    let mut diff: Vec<(usize, u8)> = Vec::new();
    for i in rng.sample_distinct(nd, wd) {
        let p = b + i * s.blocks;
        let m = rng.nonzero_byte();
        delta[p] = m;
        diff.push((p, m));
    }
    let n_data_diff = diff.len();
    let ec = match real_ec(s, &delta) {
        Some(e) => e,
        None => return false,
    };
    for (j, v) in ec.iter().enumerate() {
        if *v != 0 {
            diff.push((s.n_data + j, *v));
        }
    }
    let total = diff.len();
    let m = if in_radius {
        if rng.chance(1, 2) { t } else { rng.range(1, t) }
    } else {
        match rng.below(4) {
            0 => t + 1,
            1 => total.saturating_sub(t).max(t + 1),          // exactly t away from B
            2 => total.saturating_sub(t + 1).max(t + 1),      // just outside B's radius too
            _ => rng.range(t + 1, total.max(t + 1)),
        }
    }
    .min(total);
    // which of the differing positions: the data ones first (usual), EC ones only, or any
    let mut chosen: Vec<usize> = Vec::new();
    match rng.below(4) {
        0 => {
            for i in rng.sample_distinct(total, m) {
                chosen.push(i);
            }
        }
        1 if total - n_data_diff >= m => {
            for i in rng.sample_distinct(total - n_data_diff, m) {
                chosen.push(n_data_diff + i);
            }
        }
        _ => {
            let nd_take = n_data_diff.min(m);
            chosen.extend(0..nd_take);
            let rest = m - nd_take;
            let pool = total - n_data_diff;
            if rng.chance(1, 2) {
                // the leading EC codewords
                chosen.extend((0..rest.min(pool)).map(|i| n_data_diff + i));
            } else {
                for i in rng.sample_distinct(pool, rest.min(pool)) {
                    chosen.push(n_data_diff + i);
                }
            }
        }
    }
    for i in chosen {
        let (p, mask) = diff[i];
        faults.push(Fault::new("cw_toward", Op::CwXor { pos: p as u32, mask }));
    }
    if !in_radius && rng.chance(1, 3) {
        // extra damage elsewhere in the block
        let extra = rng.range(1, t);
        for p in pick_block_positions(rng, s, b, extra, Region::Both, PosPattern::Uniform) {
            faults.push(value_fault(rng, ValKind::Subst, None, p));
        }
    }
    true
}

/// Twin blocks: the same damage (same polynomial degrees, i.e. the same distance from the END of the block, and the
/// same values) in two or more blocks, so that their syndrome vectors are IDENTICAL - what a physical burst of
/// a uniform kind does to an interleaved symbol - optionally with one block differing in a single value, a
/// missing or an additional error. Within the radius.
fn twin_block_faults(ctx: &Ctx, rng: &mut Rng, s: &SizeInfo, faults: &mut Vec<Fault>) -> bool {
    if s.blocks < 2 {
        return false;
    }
    let t = s.t();
    let nb_min = s.block_len(s.blocks - 1);
    let v = if rng.chance(1, 3) { 1 } else { rng.range(1, t) };
    let degs = rng.sample_distinct(nb_min, v);
    let masks: Vec<u8> = if rng.chance(1, 3) { vec![rng.nonzero_byte(); v] } else { (0..v).map(|_| rng.nonzero_byte()).collect() };
    let group: Vec<usize> = match rng.below(3) {
        0 => (0..s.blocks).collect(),
        1 => {
            let a = rng.below(s.blocks - 1);
            vec![a, a + 1]
        }
        _ => {
            let n = rng.range(2, s.blocks);
            let mut g = rng.sample_distinct(s.blocks, n);
            g.sort();
            g
        }
    };
    let odd_one = if rng.chance(1, 3) { Some(*rng.pick(&group)) } else { None };
    // proportional instead of identical: every block's error values are the common ones times a per-block field
    // constant (1, alpha, alpha^-1, alpha^2 or arbitrary), so the syndrome vectors are proportional and a linear
    // combination of the blocks can cancel
    let proportional = rng.chance(1, 3);
    for b in group {
        let pos = s.block_positions(b);
        let scale: u8 = if proportional {
            match rng.below(6) {
                0 => 1,
                1 | 2 => 2,
                3 => ctx.gf.inv(2),
                4 => 4,
                _ => rng.nonzero_byte(),
            }
        } else {
            1
        };
        let mut list: Vec<(usize, u8)> = degs.iter().zip(masks.iter()).map(|(d, m)| (pos[pos.len() - 1 - *d], ctx.gf.mul(*m, scale))).collect();
        if odd_one == Some(b) {
            match rng.below(3) {
                0 => {
                    let i = rng.below(list.len());
                    list[i].1 ^= 1 << rng.below(8);
                    if list[i].1 == 0 {
                        list[i].1 = 1;
                    }
                }
                1 if list.len() > 1 => {
                    let i = rng.below(list.len());
                    list.remove(i);
                }
                _ if list.len() < t => {
                    let p = pos[rng.below(pos.len())];
                    if !list.iter().any(|(q, _)| *q == p) {
                        list.push((p, rng.nonzero_byte()));
                    }
                }
                _ => {}
            }
        }
        for (p, m) in list {
            faults.push(Fault::new("cw_twin", Op::CwXor { pos: p as u32, mask: m }));
        }
    }
    true
}

/// A foreign producer: the data part is fine, the EC part is what a plausible NON-conforming third-party encoder
/// would have written - the blocks' EC codewords assigned to the wrong blocks (rotation: what naive striding
/// does when the block lengths differ), written block after block instead of interleaved, reversed within each
/// block, or computed over the data split into contiguous chunks instead of strided ones.
/// Every variant consists of perfectly valid Reed-Solomon words in the WRONG places.
fn foreign_ec_faults(rng: &mut Rng, s: &SizeInfo, data: &[u8], faults: &mut Vec<Fault>) -> bool {
    let ec = match real_ec(s, data) {
        Some(e) => e,
        None => return false,
    };
    let bl = s.blocks;
    let k = s.k;
    let mut f = ec.clone();
    let variant = if bl > 1 { rng.below(4) } else { 2 };
    match variant {
        0 => {
            let r = if s.idx == 23 && rng.chance(1, 2) { 2 } else { rng.range(1, bl - 1) };
            for b in 0..bl {
                for j in 0..k {
                    f[b + j * bl] = ec[(b + r) % bl + j * bl];
                }
            }
        }
        1 => {
            for b in 0..bl {
                for j in 0..k {
                    f[b * k + j] = ec[b + j * bl];
                }
            }
        }
        2 => {
            for b in 0..bl {
                for j in 0..k {
                    f[b + j * bl] = ec[b + (k - 1 - j) * bl];
                }
            }
        }
        _ => {
            // contiguous chunks instead of strided blocks
            let mut perm = vec![0u8; s.n_data];
            let mut start = 0usize;
            for b in 0..bl {
                let len = s.block_data_len(b);
                for i in 0..len {
                    perm[b + i * bl] = data[start + i];
                }
                start += len;
            }
            match real_ec(s, &perm) {
                Some(e) => f = e,
                None => return false,
            }
        }
    }
    let mut any = false;
    for j in 0..f.len() {
        if f[j] != ec[j] {
            faults.push(Fault::new("snd_foreign_ec", Op::CwSet { pos: (s.n_data + j) as u32, val: f[j] }));
            any = true;
        }
    }
    if any && rng.chance(1, 3) {
        let w = bounded_weights(rng, s);
        weighted_cw_faults(rng, s, &w, faults);
    }
    any
}

/// Data lines painted like the fixed pattern next to them. `lines`: (pixel row or column index, pattern) with
/// pattern 0 = all dark, 1 = all light, 2 = alternating, dark on even coordinates (the phase of a clock track),
/// 3 = the other phase. Every DATA module of the line is set; the fixed modules are left alone. Returns false
/// (and adds nothing) unless the resulting damage stays within the correction radius of every block.
pub fn mimic_line_faults(
    ctx: &Ctx,
    s: &SizeInfo,
    all_cw: &[u8],
    horizontal: bool,
    lines: &[(usize, u8)],
    faults: &mut Vec<Fault>,
) -> bool {
    let mixed: Vec<(bool, usize, u8)> = lines.iter().map(|(l, p)| (horizontal, *l, *p)).collect();
    mimic_lines_mixed(ctx, s, all_cw, &mixed, faults)
}

/// The same for a set of lines of BOTH orientations (round 25): an L, a T, a cross, a frame of painted data lines -
/// ink bleeding inward from the finder's corner, a doubled finder. (horizontal?, line, pattern) per line.
pub fn mimic_lines_mixed(ctx: &Ctx, s: &SizeInfo, all_cw: &[u8], lines: &[(bool, usize, u8)], faults: &mut Vec<Fault>) -> bool {
    let map = match ctx.maps[s.idx].as_ref() {
        Some(m) => m,
        None => return false,
    };
    let mut damaged: Vec<usize> = Vec::new();
    let mut ops: Vec<Fault> = Vec::new();
    for (horizontal, line, pat) in lines {
        let horizontal = *horizontal;
        let len = if horizontal { s.cols } else { s.rows };
        for a in 0..len {
            let px = if horizontal { line * s.cols + a } else { a * s.cols + line };
            if let Some(crate::catalogue::PixelRole::Data { cw, bit }) = map.roles.get(px) {
                let want = match pat {
                    0 => true,
                    1 => false,
                    2 => a % 2 == 0,
                    _ => a % 2 == 1,
                };
                let cwi = *cw as usize;
                if cwi >= all_cw.len() {
                    continue;
                }
                let have = (all_cw[cwi] >> (7 - *bit)) & 1 == 1;
                if have != want && !damaged.contains(&cwi) {
                    damaged.push(cwi);
                }
                ops.push(Fault::new("mod_mimic", Op::PxSet { idx: px as u32, val: want }));
            }
        }
    }
    let mut per_block = vec![0usize; s.blocks];
    for c in &damaged {
        per_block[s.block_of(*c)] += 1;
    }
    if damaged.is_empty() || per_block.iter().any(|n| *n > s.t()) {
        return false;
    }
    faults.extend(ops);
    true
}

/// The data lines (pixel rows if `horizontal`, else pixel columns) of a size, and which of them are the last
/// line before / the first line after an interior region boundary.
pub fn data_lines(s: &SizeInfo, horizontal: bool) -> (Vec<usize>, Vec<(usize, usize)>) {
    let (n, regs) = if horizontal { (s.rows, s.reg_rows) } else { (s.cols, s.reg_cols) };
    let rh = n / regs;
    let lines: Vec<usize> = (0..n).filter(|r| r % rh != 0 && r % rh != rh - 1).collect();
    let pairs: Vec<(usize, usize)> = (1..regs).map(|g| (g * rh - 2, g * rh + 1)).collect();
    (lines, pairs)
}

fn mimic_trace(ctx: &Ctx, rng: &mut Rng, s: &SizeInfo) -> Option<Trace> {
    let data = raw_data(rng, s);
    let ec = real_ec(s, &data)?;
    let mut all = data.clone();
    all.extend_from_slice(&ec);
    for _ in 0..3 {
        let horizontal = rng.bit();
        let (lines, pairs) = data_lines(s, horizontal);
        let mut chosen: Vec<(usize, u8)> = Vec::new();
        if !pairs.is_empty() && rng.chance(1, 2) {
            let (a, b) = *rng.pick(&pairs);
            match rng.below(4) {
                0 => chosen.push((a, rng.below(4) as u8)),
                1 => chosen.push((b, rng.below(4) as u8)),
                _ => {
                    chosen.push((a, rng.below(4) as u8));
                    chosen.push((b, rng.below(4) as u8));
                }
            }
        } else {
            let n = rng.range(1, 3.min(lines.len()));
            let start = match rng.below(3) {
                0 => 0,
                1 => lines.len() - n,
                _ => rng.below(lines.len() - n + 1),
            };
            for l in &lines[start..start + n] {
                chosen.push((*l, rng.below(4) as u8));
            }
        }
        let mut faults = Vec::new();
        if rng.chance(1, 3) {
            // both orientations at once: a line of this orientation and one or two of the other - outermost data
            // lines (the L next to the finder's corner, the L next to the clock tracks, a frame), lines at a region
            // boundary, or anywhere; the same pattern on all or one each
            let (olines, opairs) = data_lines(s, !horizontal);
            let pick_line = |rng: &mut Rng, ls: &Vec<usize>, ps: &Vec<(usize, usize)>| -> usize {
                match rng.below(4) {
                    0 => ls[0],
                    1 => ls[ls.len() - 1],
                    2 if !ps.is_empty() => { let (a, b) = *rng.pick(ps); if rng.bit() { a } else { b } }
                    _ => *rng.pick(ls),
                }
            };
            let same = rng.chance(1, 2);
            let pat0 = rng.below(4) as u8;
            let mut mixed: Vec<(bool, usize, u8)> = Vec::new();
            let shape = rng.below(4);
            if shape == 0 {
                // the complete frame of outermost data lines
                for (h, ls) in [(horizontal, &lines), (!horizontal, &olines)] {
                    mixed.push((h, ls[0], if same { pat0 } else { rng.below(4) as u8 }));
                    mixed.push((h, ls[ls.len() - 1], if same { pat0 } else { rng.below(4) as u8 }));
                }
            } else {
                // one of the four corner Ls (shape 1: always an outermost pair), else any pair / triple
                let l1 = if shape == 1 { if rng.bit() { lines[0] } else { lines[lines.len() - 1] } } else { pick_line(rng, &lines, &pairs) };
                let l2 = if shape == 1 { if rng.bit() { olines[0] } else { olines[olines.len() - 1] } } else { pick_line(rng, &olines, &opairs) };
                mixed.push((horizontal, l1, pat0));
                mixed.push((!horizontal, l2, if same { pat0 } else { rng.below(4) as u8 }));
                if shape == 3 {
                    let l3 = pick_line(rng, &olines, &opairs);
                    if l3 != l2 {
                        mixed.push((!horizontal, l3, if same { pat0 } else { rng.below(4) as u8 }));
                    }
                }
            }
            if mimic_lines_mixed(ctx, s, &all, &mixed, &mut faults) {
                return Some(Trace { prop: "C03".into(), producer: Producer::Raw { size: s.idx, data }, faults });
            }
            faults.clear();
        }
        if mimic_line_faults(ctx, s, &all, horizontal, &chosen, &mut faults) {
            return Some(Trace { prop: "C03".into(), producer: Producer::Raw { size: s.idx, data }, faults });
        }
    }
    None
}

// ---------------- pixel-level fault construction ----------------

#[derive(Clone, Copy, PartialEq, Eq)]
enum Paint {
    Dark,
    Light,
    Invert,
}

fn paint_op(p: Paint, idx: u32) -> Op {
    match p {
        Paint::Dark => Op::PxSet { idx, val: true },
        Paint::Light => Op::PxSet { idx, val: false },
        Paint::Invert => Op::PxFlip { idx },
    }
}

struct Budget<'a> {
    s: &'a SizeInfo,
    t: Option<usize>,
    touched: Vec<bool>,
    per_block: Vec<usize>,
}

impl<'a> Budget<'a> {
    fn new(s: &'a SizeInfo, t: Option<usize>) -> Self {
        Budget { s, t, touched: vec![false; s.n_total()], per_block: vec![0; s.blocks] }
    }
    /// May the codeword `cw` be damaged? Registers it when allowed.
    fn admit(&mut self, cw: usize) -> bool {
        if cw >= self.touched.len() {
            return false;
        }
        if self.touched[cw] {
            return true;
        }
        let b = self.s.block_of(cw);
        if let Some(t) = self.t {
            if self.per_block[b] >= t {
                return false;
            }
        }
        self.touched[cw] = true;
        self.per_block[b] += 1;
        true
    }
}

/// Damage to data modules only (never finder/clock/alignment/fixed-corner modules).
fn data_module_faults(ctx: &Ctx, rng: &mut Rng, s: &SizeInfo, budget_t: Option<usize>, faults: &mut Vec<Fault>) {
    let map = match ctx.maps[s.idx].as_ref() {
        Some(m) if m.roles_agree_with_template => m,
        _ => return,
    };
    let mut budget = Budget::new(s, budget_t);
    let (h, w) = (s.rows, s.cols);
    let n_actions = rng.range(1, 3);
    for _ in 0..n_actions {
        match rng.below(4) {
            0 | 1 => {
                // speckle
                let n = match budget_t {
                    Some(t) => rng.range(1, (t * s.blocks * 2).max(1)),
                    None => rng.range(1, (map.template_data_pixels.len() / 2).max(1)),
                };
                for _ in 0..n {
                    let px = *rng.pick(&map.template_data_pixels);
                    if let crate::catalogue::PixelRole::Data { cw, .. } = map.roles[px as usize] {
                        if budget.admit(cw as usize) {
                            faults.push(Fault::new("mod_flip", Op::PxFlip { idx: px }));
                        }
                    }
                }
            }
            2 => {
                // blot
                let bh = rng.range(1, (h / 2).max(1));
                let bw = rng.range(1, (w / 2).max(1));
                let r0 = rng.range(0, h - bh);
                let c0 = rng.range(0, w - bw);
                let paint = *rng.pick(&[Paint::Dark, Paint::Light, Paint::Invert]);
                for r in r0..r0 + bh {
                    for c in c0..c0 + bw {
                        let px = r * w + c;
                        if let crate::catalogue::PixelRole::Data { cw, .. } = map.roles[px] {
                            if budget.admit(cw as usize) {
                                faults.push(Fault::new("mod_blot", paint_op(paint, px as u32)));
                            }
                        }
                    }
                }
            }
            _ => {
                // scratch: a row, a column or a diagonal stuck
                let paint = *rng.pick(&[Paint::Dark, Paint::Light, Paint::Invert]);
                let line: Vec<usize> = match rng.below(3) {
                    0 => {
                        let r = rng.below(h);
                        (0..w).map(|c| r * w + c).collect()
                    }
                    1 => {
                        let c = rng.below(w);
                        (0..h).map(|r| r * w + c).collect()
                    }
                    _ => {
                        let r0 = rng.below(h);
                        let c0 = rng.below(w);
                        (0..h.min(w))
                            .filter_map(|d| if r0 + d < h && c0 + d < w { Some((r0 + d) * w + c0 + d) } else { None })
                            .collect()
                    }
                };
                for px in line {
                    if let crate::catalogue::PixelRole::Data { cw, .. } = map.roles[px] {
                        if budget.admit(cw as usize) {
                            faults.push(Fault::new("mod_scratch", paint_op(paint, px as u32)));
                        }
                    }
                }
            }
        }
    }
}

/// Pixel damage aimed at chosen codewords (within a per-block budget by construction).
fn cw_via_pixels(ctx: &Ctx, rng: &mut Rng, s: &SizeInfo, positions: &[usize], faults: &mut Vec<Fault>) {
    let map = match ctx.maps[s.idx].as_ref() {
        Some(m) if m.roles_agree_with_template => m,
        _ => return,
    };
    for p in positions {
        let nbits = rng.range(1, 8);
        for b in rng.sample_distinct(8, nbits) {
            faults.push(Fault::new("mod_flip", Op::PxFlip { idx: map.cw_pixels[*p][b] }));
        }
    }
}

fn fixed_module_faults(ctx: &Ctx, rng: &mut Rng, s: &SizeInfo, faults: &mut Vec<Fault>) {
    let map = match ctx.maps[s.idx].as_ref() {
        Some(m) => m,
        None => return,
    };
    let (h, w) = (s.rows, s.cols);
    if rng.chance(2, 3) {
        let n = rng.range(1, 3);
        for _ in 0..n {
            let px = *rng.pick(&map.template_fixed_pixels);
            faults.push(Fault::new("fix_flip", Op::PxFlip { idx: px }));
        }
    } else {
        // a blot over a finder edge or an alignment bar (covers fixed and data modules alike)
        let bh = rng.range(1, 4.min(h));
        let bw = rng.range(1, 4.min(w));
        let anchor = *rng.pick(&map.template_fixed_pixels) as usize;
        let r0 = (anchor / w).saturating_sub(rng.below(bh)).min(h - bh);
        let c0 = (anchor % w).saturating_sub(rng.below(bw)).min(w - bw);
        let paint = *rng.pick(&[Paint::Dark, Paint::Light, Paint::Invert]);
        for r in r0..r0 + bh {
            for c in c0..c0 + bw {
                faults.push(Fault::new("fix_blot", paint_op(paint, (r * w + c) as u32)));
            }
        }
    }
}

/// Structured damage to a whole track of the fixed pattern (or a segment of it): inverted (= phase
/// shifted clock track), stuck dark, stuck light, every other module inverted, two neighbours inverted.
fn fixed_track_faults(rng: &mut Rng, s: &SizeInfo, faults: &mut Vec<Fault>) {
    let tracks = crate::catalogue::fixed_tracks(s);
    let n_tracks = if rng.chance(3, 4) { 1 } else { 2 };
    for _ in 0..n_tracks {
        let t = rng.pick(&tracks).clone();
        let (a, b) = match rng.below(4) {
            0 | 1 => (0, t.len()),
            2 => {
                let l = rng.range(2, t.len());
                let a = rng.range(0, t.len() - l);
                (a, a + l)
            }
            _ => {
                let a = rng.range(0, t.len() - 2);
                (a, a + 2)
            }
        };
        let mode = rng.below(5);
        for (j, px) in t[a..b].iter().enumerate() {
            let op = match mode {
                0 | 1 => Op::PxFlip { idx: *px },
                2 => Op::PxSet { idx: *px, val: true },
                3 => Op::PxSet { idx: *px, val: false },
                _ => {
                    if j % 2 == 0 {
                        Op::PxFlip { idx: *px }
                    } else {
                        continue;
                    }
                }
            };
            faults.push(Fault::new("fix_track", op));
        }
    }
}

fn geometry_fault(rng: &mut Rng, s: &SizeInfo, faults: &mut Vec<Fault>) {
    let (h, w) = (s.rows, s.cols);
    let n = h * w;
    let f = match rng.below(14) {
        0 => Fault::new("geo_trunc", Op::GeoTrunc { len: match rng.below(4) {
            0 => (n - 1) as u32,
            1 => (n - w) as u32,
            2 => rng.below(n) as u32,
            _ => (n - rng.range(1, w)) as u32,
        } }),
        1 => {
            let extra = match rng.below(5) {
                0 => 1,
                1 => w,
                2 => h * rng.range(1, (w / h).max(1)), // a multiple of the height (rows/columns confused)
                3 => w * rng.range(1, 3) + rng.range(0, 1),
                _ => rng.range(1, 2 * w),
            };
            Fault::new("geo_extend", Op::GeoExtend { bits: (0..extra).map(|_| rng.bit()).collect() })
        }
        2 => Fault::new("geo_row_drop", Op::GeoRowDrop { r: rng.below(h) as u32 }),
        3 => Fault::new("geo_row_dup", Op::GeoRowDup { r: rng.below(h) as u32 }),
        4 => Fault::new("geo_col_drop", Op::GeoColDrop { c: rng.below(w) as u32 }),
        5 => Fault::new("geo_col_dup", Op::GeoColDup { c: rng.below(w) as u32 }),
        6 | 7 => {
            let nw = match rng.below(9) {
                8 => *rng.pick(&[u32::MAX as usize, (u32::MAX / 2) as usize, 1 << 16, 65535]),
                0 => 0,
                1 => w + 1,
                2 => w.saturating_sub(1),
                3 => n + rng.range(1, 5),
                4 => h, // transposed framing
                5 => n,
                6 => 1,
                _ => rng.range(0, 2 * w),
            };
            if rng.chance(1, 12) {
                Fault::new("geo_width_skew", Op::GeoWidthHuge { code: rng.below(crate::trace::N_HUGE_WIDTHS as usize) as u32 })
            } else {
                Fault::new("geo_width_skew", Op::GeoWidth { w: nw as u32 })
            }
        }
        8 if rng.chance(1, 4) => {
            // isotropic (k x k) or anisotropic (kx x ky) magnification
            let k = if rng.chance(1, 2) { rng.range(2, 4) as u32 } else { rng.range(1, 4) as u32 + 16 * rng.range(1, 4) as u32 };
            Fault::new("geo_frame", Op::GeoScale { k })
        }
        8 if rng.chance(1, 3) => Fault::new("geo_frame", Op::GeoFrame { n: rng.range(1, 3) as u32, fill: rng.below(3) as u32 }),
        8 if rng.chance(1, 2) => {
            let side = rng.below(4) as u32;
            let along = if side < 2 { w } else { h };
            let n = if rng.chance(1, 2) { rng.range(1, 8) } else { (8 - along % 8) % 8 + 8 * rng.below(2) };
            Fault::new("geo_frame", Op::GeoMargin { side, n: n.max(1) as u32, fill: rng.below(3) as u32 })
        }
        8 => Fault::new("geo_empty", Op::GeoEmpty),
        9 | 10 => Fault::new("geo_rot", Op::GeoRot { q: rng.range(1, 3) as u8 }),
        11 => Fault::new("geo_mirror", Op::GeoMirror),
        12 => Fault::new("geo_invert", Op::GeoInvert),
        _ => {
            // pair: drop a row and a column (another catalogue size may result)
            faults.push(Fault::new("geo_row_drop", Op::GeoRowDrop { r: rng.below(h) as u32 }));
            Fault::new("geo_col_drop", Op::GeoColDrop { c: rng.below(w) as u32 })
        }
    };
    faults.push(f);
}

/// The medium replaces the whole pixel buffer (density-1 limit at pixel level).
fn replace_fault(ctx: &Ctx, rng: &mut Rng, faults: &mut Vec<Fault>) {
    let mode = rng.below(11);
    let s = &SIZES[rng.below(N_SIZES)];
    let (h, w) = (s.rows, s.cols);
    match mode {
        0..=5 => {
            // catalogue dimensions, fixed pattern as the standard says, random data modules,
            // optionally a few deviating fixed modules
            let tpl = crate::catalogue::fixed_template(s);
            let dens = rng.range(0, 100);
            // data modules: random with some density, or structured (stripes, checkerboard, a single row or
            // column of the minority colour, a single module)
            let structure = rng.below(12);
            let line = rng.below(h.max(w));
            let period = rng.range(1, 4);
            let base = rng.bit();
            let mut bits: Vec<bool> = tpl
                .iter()
                .enumerate()
                .map(|(i, t)| match t {
                    Some(d) => *d,
                    None => {
                        let (r, c) = (i / w, i % w);
                        match structure {
                            0 => (r / period) % 2 == 0,
                            1 => (c / period) % 2 == 0,
                            2 => (r + c) % 2 == 0,
                            3 => (r == line) != base,
                            4 => (c == line) != base,
                            5 => (r == line && c == (line * 7 + 3) % w) != base,
                            _ => rng.below(100) < dens,
                        }
                    }
                })
                .collect();
            if mode >= 4 {
                if let Some(map) = ctx.maps[s.idx].as_ref() {
                    for _ in 0..rng.range(1, 3) {
                        let px = *rng.pick(&map.template_fixed_pixels) as usize;
                        bits[px] = !bits[px];
                    }
                }
            }
            faults.push(Fault::new("geo_replace", Op::GeoReplace { bits, w: w as u32 }));
        }
        6 | 7 => {
            // catalogue dimensions, everything random / constant
            let bits: Vec<bool> = match rng.below(3) {
                0 => vec![true; h * w],
                1 => vec![false; h * w],
                _ => (0..h * w).map(|_| rng.bit()).collect(),
            };
            faults.push(Fault::new("geo_replace", Op::GeoReplace { bits, w: w as u32 }));
        }
        8 => {
            // arbitrary small dimensions
            let hh = rng.range(0, 30);
            let ww = rng.range(0, 40);
            let len = if rng.chance(1, 4) { hh * ww + rng.range(0, 5) } else { hh * ww };
            let bits: Vec<bool> = (0..len).map(|_| rng.bit()).collect();
            faults.push(Fault::new("geo_replace", Op::GeoReplace { bits, w: ww as u32 }));
        }
        _ => {
            // large / structured dimensions: catalogue dimensions shifted by multiples of 256, powers of two
            // and their neighbours, catalogue heights with some bits cleared or set
            let o = &SIZES[rng.below(N_SIZES)];
            let ww = match rng.below(5) {
                0 => o.cols + 256 * rng.range(1, 20),
                1 => (1usize << rng.range(4, 12)) + rng.range(0, 2) - 1,
                2 => o.cols * rng.range(2, 9),
                3 => rng.range(145, 5000),
                _ => o.cols,
            };
            let hh = match rng.below(5) {
                0 => o.rows,
                1 => o.rows & !(1usize << rng.range(1, 7)),
                2 => o.rows | (1usize << rng.range(0, 3)),
                3 => rng.range(1, 300),
                _ => o.rows + 256,
            };
            let hh = hh.min(200_000 / ww.max(1)).max(1);
            let len = if rng.chance(1, 6) { hh * ww + rng.range(1, ww.max(2) - 1) } else { hh * ww };
            let fill = rng.below(3);
            let bits: Vec<bool> = (0..len)
                .map(|j| match fill {
                    0 => false,
                    1 => (j % ww.max(1)) % 2 == 0 || j % ww.max(1) == 0,
                    _ => rng.bit(),
                })
                .collect();
            faults.push(Fault::new("geo_replace", Op::GeoReplace { bits, w: ww as u32 }));
        }
    }
}

// ---------------- sender-side faults ----------------

const HOT: &[u8] = &[0, 1, 2, 128, 129, 130, 191, 192, 207, 208, 229, 230, 231, 232, 233, 234, 235, 236, 237, 238, 239, 240, 241, 242, 253, 254, 255];

fn sender_faults(rng: &mut Rng, n_data: usize, faults: &mut Vec<Fault>) {
    if n_data == 0 {
        return;
    }
    let n = rng.range(1, 3);
    for _ in 0..n {
        // bias towards the head of the stream (ECI designators, macro, latches live there)
        let pos = if rng.chance(2, 5) { rng.below(n_data.min(8)) } else { rng.below(n_data) } as u32;
        match rng.below(12) {
            0..=2 => {
                let val = if rng.chance(1, 2) { *rng.pick(HOT) } else { rng.byte() };
                faults.push(Fault::new("snd_subst", Op::SndSet { pos, val }));
            }
            3 | 4 => faults.push(Fault::new("snd_bitflip", Op::SndXor { pos, mask: 1 << rng.below(8) })),
            5 | 6 => {
                let l = rng.range(1, 6);
                for d in 0..l {
                    faults.push(Fault::new("snd_stuck00_run", Op::SndSet { pos: pos + d as u32, val: 0 }));
                }
            }
            7 => {
                let l = rng.range(1, 6);
                for d in 0..l {
                    faults.push(Fault::new("snd_stuckFF_run", Op::SndSet { pos: pos + d as u32, val: 0xFF }));
                }
            }
            8 => faults.push(Fault::new("snd_swap", Op::SndSwap { a: pos, b: rng.below(n_data) as u32 })),
            9 => faults.push(Fault::new("snd_dup", Op::SndDup { pos })),
            _ => {
                // a short crafted window: a latch / ECI introducer followed by hot or random values
                let intro = *rng.pick(&[230u8, 231, 235, 238, 239, 240, 241, 241, 241]);
                faults.push(Fault::new("snd_craft", Op::SndSet { pos, val: intro }));
                let l = rng.range(1, 5);
                for d in 1..=l {
                    let val = if rng.chance(1, 2) { *rng.pick(HOT) } else { rng.byte() };
                    faults.push(Fault::new("snd_craft", Op::SndSet { pos: pos + d as u32, val }));
                }
            }
        }
    }
}

fn gen_stream(rng: &mut Rng) -> Vec<u8> {
    let len = match rng.below(4) {
        0 => rng.range(0, 4),
        1 => rng.range(0, 16),
        _ => rng.range(0, 120),
    };
    let mode = rng.below(4);
    (0..len)
        .map(|_| match mode {
            0 => rng.byte(),
            1 => {
                if rng.chance(1, 3) {
                    *rng.pick(HOT)
                } else {
                    rng.byte()
                }
            }
            2 => *rng.pick(HOT),
            _ => {
                if rng.chance(1, 6) {
                    *rng.pick(&[230u8, 231, 238, 239, 240, 241, 254, 235])
                } else {
                    rng.range(1, 229) as u8
                }
            }
        })
        .collect()
}

/// 255-state randomisation of Base256 (so that a crafted length / byte value survives derandomisation)
fn rand255(val: u8, pos1: usize) -> u8 {
    let pr = ((149 * pos1) % 255) + 1;
    ((val as usize + pr) % 256) as u8
}

fn c40_pair(c1: u16, c2: u16, c3: u16) -> [u8; 2] {
    let v = 1600 * c1 + 40 * c2 + c3 + 1;
    [(v >> 8) as u8, (v & 0xFF) as u8]
}

/// A data codeword stream built from the constructs of the data decoder's grammar, with crafted
/// corner values, truncation and illegal continuations: what a buggy third-party producer or a
/// mis-corrected symbol can hand to decode_data / decode_str.
pub fn fabricate_stream(rng: &mut Rng) -> Vec<u8> {
    let mut out: Vec<u8> = Vec::new();
    // optional head
    match rng.below(10) {
        0 => out.push(236),
        1 => out.push(237),
        2 => out.push(232),
        3 => {
            out.push(236);
            out.push(232);
        }
        _ => {}
    }
    if rng.chance(1, 10) {
        // a long run first, so that later constructs sit at large stream positions
        let n = if rng.chance(1, 2) { rng.range(100, 400) } else { rng.range(400, 1600) };
        for _ in 0..n {
            out.push(rng.range(1, 128) as u8);
        }
    }
    let eci_bytes = |rng: &mut Rng, out: &mut Vec<u8>| {
        out.push(241);
        match rng.below(8) {
            0 => out.push(*rng.pick(&[4u8, 12, 14, 27, 28, 1, 127])), // ECI 3, 11, 13, 26, 27, 0, 126
            1 => out.push(rng.range(1, 127) as u8),
            2 => {
                out.push(rng.range(128, 191) as u8);
                out.push(*rng.pick(&[0u8, 1, 2, 254, 255, 129]));
            }
            3 => {
                out.push(rng.range(192, 207) as u8);
                out.push(*rng.pick(&[0u8, 1, 254, 255, 77]));
                out.push(*rng.pick(&[0u8, 1, 254, 255, 77]));
            }
            4 => out.push(*rng.pick(&[0u8, 208, 255, 241])),
            5 => {
                out.push(rng.range(192, 207) as u8); // truncated designator
            }
            6 => {} // introducer at the very end / followed by whatever comes next
            _ => out.push(*rng.pick(&[4u8, 12, 14, 27, 28])),
        }
    };
    if rng.chance(1, 4) {
        eci_bytes(rng, &mut out);
    }
    let n_tokens = rng.range(1, 6);
    // string-path mode: charset switches interleaved with constructs that emit high bytes
    let eci_heavy = rng.chance(1, 5);
    let mut tok_starts: Vec<usize> = Vec::new();
    for tok in 0..n_tokens {
        tok_starts.push(out.len());
        let choice = if eci_heavy {
            if tok % 2 == 0 { 11 } else { *rng.pick(&[2usize, 9, 0, 2, 9, 12]) }
        } else {
            rng.below(14)
        };
        match choice {
            0 => {
                for _ in 0..rng.range(1, 5) {
                    out.push(rng.range(1, 128) as u8);
                }
            }
            1 => {
                for _ in 0..rng.range(1, 3) {
                    out.push(rng.range(130, 229) as u8);
                }
            }
            2 => {
                out.push(235);
                if rng.chance(3, 4) {
                    out.push(if rng.chance(1, 2) { rng.range(1, 128) as u8 } else { *rng.pick(&[1u8, 128, 129, 0, 33, 100, 127, 235]) });
                }
            }
            3 => {
                out.push(129);
                for _ in 0..rng.range(0, 4) {
                    out.push(rng.byte());
                }
            }
            4 | 5 | 6 => {
                // C40 / Text / X12
                out.push(*rng.pick(&[230u8, 239, 238]));
                let n = rng.range(0, 4);
                for _ in 0..n {
                    let pair: [u8; 2] = match rng.below(10) {
                        0 => [0, 0],
                        1 => [0, 1],
                        2 => [250, *rng.pick(&[0u8, 1, 2, 255])],
                        3 => [*rng.pick(&[251u8, 252, 253, 255]), rng.byte()],
                        4 => c40_pair(rng.below(3) as u16, rng.below(40) as u16, rng.below(40) as u16), // shifts
                        5 => c40_pair(1, 30, rng.below(40) as u16),                                     // shift 2 + upper shift
                        6 => c40_pair(rng.below(40) as u16, rng.below(3) as u16, rng.below(3) as u16),  // shift pending at end
                        7 => [rng.byte(), rng.byte()],
                        _ => c40_pair(rng.below(40) as u16, rng.below(40) as u16, rng.below(40) as u16),
                    };
                    out.extend_from_slice(&pair);
                }
                match rng.below(4) {
                    0 => out.push(254),
                    1 => out.push(rng.byte()), // half a pair
                    _ => {}
                }
            }
            7 | 8 => {
                // EDIFACT
                out.push(240);
                for _ in 0..rng.range(0, 3) {
                    let mut vals = [0u8; 4];
                    for v in vals.iter_mut() {
                        *v = if rng.chance(1, 8) { 0b01_1111 } else { rng.below(64) as u8 };
                    }
                    let chunk: u32 = ((vals[0] as u32) << 18) | ((vals[1] as u32) << 12) | ((vals[2] as u32) << 6) | vals[3] as u32;
                    out.push((chunk >> 16) as u8);
                    out.push((chunk >> 8) as u8);
                    out.push(chunk as u8);
                }
                for _ in 0..rng.below(3) {
                    out.push(rng.byte());
                }
            }
            9 | 10 => {
                // Base256 with a crafted length field
                out.push(231);
                let payload = if rng.chance(1, 6) { rng.range(245, 520) } else { rng.range(0, 6) };
                let l: usize = match rng.below(9) {
                    8 => payload.saturating_sub(1),
                    0 => 0,
                    1 => payload,
                    2 => payload + 1,
                    3 => 249,
                    4 => 250,
                    5 => 250 * rng.range(1, 6) + rng.below(250),
                    6 => 1555,
                    _ => rng.below(256),
                };
                if l < 250 {
                    let p = out.len() + 1;
                    out.push(rand255(l as u8, p));
                } else {
                    let p = out.len() + 1;
                    out.push(rand255((l / 250 + 249).min(255) as u8, p));
                    if rng.chance(7, 8) {
                        let p = out.len() + 1;
                        out.push(rand255((l % 250) as u8, p));
                    }
                }
                for _ in 0..payload {
                    let p = out.len() + 1;
                    let v = if rng.chance(1, 2) { rng.range(0x80, 0xFF) as u8 } else { rng.byte() };
                    out.push(rand255(v, p));
                }
            }
            11 => {
                if eci_heavy && rng.chance(1, 2) {
                    // a multi-byte UTF-8 character whose bytes are torn apart by a charset switch
                    let cp: u32 = match rng.below(3) {
                        0 => rng.range(0x80, 0x7FF) as u32,
                        1 => rng.range(0x800, 0xD7FF) as u32,
                        _ => rng.range(0x10000, 0x10FFFF) as u32,
                    };
                    let ch = char::from_u32(cp).unwrap_or('\u{e4}');
                    let mut buf = [0u8; 4];
                    let bytes = ch.encode_utf8(&mut buf).as_bytes().to_vec();
                    let cut = rng.range(1, bytes.len() - 1);
                    for (bi, b) in bytes.iter().enumerate() {
                        if bi == cut {
                            out.push(241);
                            out.push(*rng.pick(&[27u8, 27, 4, 12, 14, 28])); // ECI 26, 3, 11, 13, 27
                        }
                        out.push(235);
                        out.push(b - 127);
                    }
                } else {
                    eci_bytes(rng, &mut out)
                }
            }
            12 => out.push(*rng.pick(&[233u8, 234, 242, 243, 255, 0, 232, 236, 237])),
            13 if rng.chance(1, 2) => {
                // the macro envelope written out as data although (or because) a macro codeword is present:
                // RS EOT trailer, optionally with a charset switch before, inside or after it; or the header
                match rng.below(6) {
                    0 => out.extend_from_slice(&[31, 5]),
                    1 => {
                        out.extend_from_slice(&[31, 5]);
                        eci_bytes(rng, &mut out);
                    }
                    2 => {
                        out.push(31);
                        eci_bytes(rng, &mut out);
                        out.push(5);
                    }
                    3 => {
                        eci_bytes(rng, &mut out);
                        out.extend_from_slice(&[31, 5]);
                    }
                    4 => out.extend_from_slice(&[92, 42, 63, 31, 49, if rng.bit() { 54 } else { 55 }, 30]), // "[)>" RS "05"/"06" GS
                    _ => out.extend_from_slice(&[31, 5, 31, 5]),
                }
            }
            _ => out.push(rng.byte()),
        }
    }
    if rng.chance(1, 25) && !tok_starts.is_empty() {
        // duplication: one construct of the stream delivered again and again (counts, not values or positions,
        // are what a fixed-capacity buffer or a narrow counter depends on)
        let k = rng.below(tok_starts.len());
        let a = tok_starts[k];
        let b = if k + 1 < tok_starts.len() { tok_starts[k + 1] } else { out.len() };
        if b > a {
            let seg: Vec<u8> = out[a..b].to_vec();
            let e = rng.range(1, 12);
            let n = ((1usize << e) + rng.below(3)).saturating_sub(1).max(2);
            let n = n.min(100_000 / seg.len()).max(2);
            let tail: Vec<u8> = out[b..].to_vec();
            out.truncate(b);
            for _ in 0..n - 1 {
                out.extend_from_slice(&seg);
            }
            out.extend_from_slice(&tail);
        }
    }
    if rng.chance(1, 4) && !out.is_empty() {
        let l = rng.below(out.len());
        out.truncate(l.max(1));
    }
    out
}

const ECIS: &[u32] = &[3, 11, 13, 26, 27, 0, 4, 25, 126, 127, 128, 16382, 16383, 16384, 80000, 999999];

// ---------------- per-property plans ----------------

fn beyond_radius_faults(ctx: &Ctx, rng: &mut Rng, s: &SizeInfo, faults: &mut Vec<Fault>) {
    let t = s.t();
    let k = s.k;
    match rng.below(20) {
        0..=3 => {
            // just outside the radius, one block or all
            let extra = rng.range(1, 3);
            let mut w = vec![0usize; s.blocks];
            if rng.chance(1, 2) {
                w[rng.below(s.blocks)] = t + extra;
            } else {
                for x in w.iter_mut() {
                    *x = t + extra;
                }
            }
            weighted_cw_faults(rng, s, &w, faults);
        }
        5 => {
            let b = rng.below(s.blocks);
            match rng.below(4) {
                0 | 1 => {
                    ghost_faults(ctx, rng, s, b, faults);
                }
                2 => {
                    syndrome_faults(ctx, rng, s, b, faults);
                }
                _ => {
                    phantom_faults(ctx, rng, s, b, false, faults);
                }
            }
        }
        4 => {
            // uniform weights up to n
            let w: Vec<usize> = (0..s.blocks).map(|b| rng.range(0, s.block_len(b))).collect();
            weighted_cw_faults(rng, s, &w, faults);
        }
        8 | 17 => {
            let b = rng.below(s.blocks);
            if rng.below(20) == 8 || rng.chance(1, 2) {
                syndrome_faults(ctx, rng, s, b, faults);
            } else {
                phantom_faults(ctx, rng, s, b, false, faults);
            }
            // interplay between blocks: the others clean, or lightly / fully (but correctably) damaged
            if s.blocks > 1 && rng.chance(1, 2) {
                let mut w = bounded_weights(rng, s);
                w[b] = 0;
                weighted_cw_faults(rng, s, &w, faults);
            }
        }
        6 | 7 if rng.chance(1, 4) => {
            // density 1 with ONE value: the whole word, one block, or one block's data / EC part reads a single byte
            // everywhere (a saturated or blank read): constant words are codewords only for the value zero
            let c = *rng.pick(&[0xFFu8, 0xFF, 0x00, 129, 0x55, 0x01]);
            let c = if rng.chance(1, 4) { rng.byte() } else { c };
            let b = rng.below(s.blocks);
            let scope = rng.below(4);
            for p in 0..s.n_total() {
                let inb = s.block_of(p) == b;
                let hit = match scope {
                    0 => true,
                    1 => inb,
                    2 => inb && !s.is_ec(p),
                    _ => inb && s.is_ec(p),
                };
                if hit {
                    faults.push(Fault::new("cw_replace", Op::CwSet { pos: p as u32, val: c }));
                }
            }
        }
        6 | 7 => {
            // density 1: the whole word replaced
            for p in 0..s.n_total() {
                faults.push(Fault::new("cw_replace", Op::CwSet { pos: p as u32, val: rng.byte() }));
            }
        }
        9 if rng.chance(1, 2) => {
            // coset-structured damage beyond the radius
            let b = rng.below(s.blocks);
            if let Some(ps) = coset_positions(rng, s, b, s.block_len(b)) {
                for p in ps {
                    faults.push(Fault::new("cw_coset", Op::CwXor { pos: p as u32, mask: rng.nonzero_byte() }));
                }
                let extra = rng.range(0, s.t());
                for p in pick_block_positions(rng, s, b, extra, Region::Both, PosPattern::Uniform) {
                    faults.push(value_fault(rng, ValKind::Subst, None, p));
                }
            } else {
                burst_faults(rng, s, None, faults)
            }
        }
        9 if rng.chance(1, 4) => {
            // periodic damage in transmission order, not bounded by the radius
            if !periodic_faults(rng, s, None, faults) {
                burst_faults(rng, s, None, faults)
            }
        }
        9 => {
            if rng.chance(1, 2) || !toward_faults(rng, s, false, faults) {
                burst_faults(rng, s, None, faults)
            }
        }
        10 => data_module_faults(ctx, rng, s, None, faults),
        11..=16 => {
            // aligned damage: a chosen set of syndromes stays consistent, the rest does not
            let b = rng.below(s.blocks);
            let roots = aligned_roots(rng, s);
            aligned_faults(ctx, rng, s, b, &roots, faults);
            // optionally plus random errors (v < t): the pattern only the malfunction test rejects
            if rng.chance(2, 3) {
                let v = rng.range(0, t);
                for p in pick_block_positions(rng, s, b, v, Region::Both, PosPattern::Uniform) {
                    faults.push(value_fault(rng, ValKind::Subst, None, p));
                }
            }
        }
        18 => {
            // within the radius (legitimate success path)
            let w = bounded_weights(rng, s);
            weighted_cw_faults(rng, s, &w, faults);
        }
        _ => {
            if rng.chance(1, 2) {
                // uncorrectable, with values tuned for leading-zero syndromes / a singular leading minor
                cancel_faults_w(ctx, rng, s, faults, true);
                return;
            }
            cancel_faults(ctx, rng, s, faults);
            // push it over the radius with a few more
            let b = rng.below(s.blocks);
            let cnt = rng.range(0, t + 1);
            for p in pick_block_positions(rng, s, b, cnt, Region::Both, PosPattern::Uniform) {
                faults.push(value_fault(rng, ValKind::Subst, None, p));
            }
        }
    }
}

pub fn generate(ctx: &Ctx, prop: &str, seed: u64, i: u64) -> Trace {
    let mut rng = Rng::new(seed);
    let mut t = match prop {
        "C03" => gen_c03(ctx, &mut rng, i),
        "C09" => gen_c09(ctx, &mut rng, i),
        "C05" => gen_c05(ctx, &mut rng, i),
        "C08" => gen_c08(ctx, &mut rng, i),
        _ => panic!("no generator for property {}", prop),
    };
    // histories: in a small share of the runs the consumer is first called on related damage of the same
    // symbol (the same faults minus the last few, plus one more, or exactly the same), then on the damage
    // that is checked. The system under test is stateless today; a cache or scratch buffer that leaks from
    // one call into the next would show here.
    if prop != "C08" && !t.faults.is_empty() && t.faults.len() <= 400 && rng.chance(1, 25) {
        let main = t.faults.clone();
        let cw_only = main.iter().all(|f| matches!(f.op, Op::CwXor { .. } | Op::CwSet { .. }));
        let mut hist: Vec<Fault> = Vec::new();
        let n_calls = rng.range(1, 2);
        for _ in 0..n_calls {
            let mut seg = main.clone();
            match rng.below(4) {
                0 => {
                    let keep = rng.range(0, seg.len() - 1);
                    seg.truncate(keep);
                }
                1 if cw_only => {
                    // one more error somewhere (values of the shared part unchanged: the syndromes share structure)
                    if let Some(Fault { op: Op::CwXor { pos, .. }, .. }) = seg.first().cloned() {
                        seg.push(Fault::new("cw_subst", Op::CwXor { pos: pos ^ 1, mask: rng.nonzero_byte() }));
                    }
                }
                2 => {
                    // the same positions, other values
                    for f in seg.iter_mut() {
                        if let Op::CwXor { mask, .. } = &mut f.op {
                            *mask = rng.nonzero_byte();
                        }
                    }
                }
                _ => {}
            }
            hist.extend(seg);
            hist.push(Fault::new("history", Op::NextCall));
        }
        hist.extend(main);
        t.faults = hist;
    }
    t
}

fn gen_c03(ctx: &Ctx, rng: &mut Rng, i: u64) -> Trace {
    let s = &SIZES[pick_size(rng, i, false)];
    if rng.chance(1, 16) {
        if let Some(t) = impostor_trace(rng, s) {
            return t;
        }
    }
    if rng.chance(1, 20) {
        if let Some(t) = mimic_trace(ctx, rng, s) {
            return t;
        }
    }
    if rng.chance(1, 25) {
        if let Some(t) = uniform_region_trace(ctx, rng, s) {
            return t;
        }
    }
    if s.blocks > 1 && rng.chance(1, 12) {
        if let Some(t) = moved_difference_trace(rng, s) {
            return t;
        }
    }
    if s.blocks > 1 && rng.chance(1, 25) {
        if let Some(t) = nested_locator_trace(ctx, rng, s) {
            return t;
        }
    }
    let (producer, msg_data) = producer_for_size_d(rng, s, 25);
    let mut faults = Vec::new();
    let t = gen_c03_faults(ctx, rng, s, &mut faults);
    // real encoder output: aim one more error (still within the budget) at a landmark of the stream
    if !msg_data.is_empty() && t && rng.chance(1, 2) {
        let marks = stream_landmarks(&msg_data);
        if !marks.is_empty() {
            let p = *rng.pick(&marks);
            let mut touched: Vec<usize> = Vec::new();
            for f in &faults {
                if let Op::CwXor { pos, .. } | Op::CwSet { pos, .. } = &f.op {
                    if !touched.contains(&(*pos as usize)) {
                        touched.push(*pos as usize);
                    }
                }
            }
            let in_block = touched.iter().filter(|q| s.block_of(**q) == s.block_of(p)).count();
            if !touched.contains(&p) && in_block < s.t() {
                let vk = pick_valkind(rng);
                faults.push(value_fault(rng, vk, Some("cw_edge"), p));
            }
        }
    }
    // the same in-radius damage around ANOTHER codeword vector: the complete difference to it goes in front. The word
    // the decoder sees is then far from what was sent; the reference model establishes the premise (exec.rs) and the
    // oracle demands the other vector, and the message IT encodes from the whole-symbol path.
    if rng.chance(1, 8) {
        let mut delta = vec![0u8; s.n_data];
        let blocks: Vec<usize> = if rng.chance(1, 2) { vec![rng.below(s.blocks)] } else { (0..s.blocks).collect() };
        let mode = rng.below(3);
        for b in blocks {
            let nd = s.block_data_len(b);
            if nd == 0 {
                continue;
            }
            let w = match mode {
                0 => 1,
                1 => rng.range(1, 3.min(nd)),
                _ => nd,
            };
            for i in rng.sample_distinct(nd, w) {
                delta[b + i * s.blocks] = if mode == 2 { rng.below(256) as u8 } else { rng.nonzero_byte() };
            }
        }
        if let Some(ec) = real_ec(s, &delta) {
            let mut front: Vec<Fault> = Vec::new();
            for (p, m) in delta.iter().chain(ec.iter()).enumerate() {
                if *m != 0 {
                    front.push(Fault::new("cw_other", Op::CwXor { pos: p as u32, mask: *m }));
                }
            }
            front.extend(faults);
            faults = front;
        }
    }
    Trace { prop: "C03".into(), producer, faults }
}

/// Returns true when the plan consists of codeword-stage faults only (so that more may be added by position).
fn gen_c03_faults(ctx: &Ctx, rng: &mut Rng, s: &SizeInfo, faults_out: &mut Vec<Fault>) -> bool {
    let mut faults = Vec::new();
    let mut cw_stage = true;
    match rng.below(20) {
        0 => {} // zero-fault control: the decoder must leave the encoder's own output untouched
        1..=9 => {
            let w = bounded_weights(rng, s);
            weighted_cw_faults(rng, s, &w, &mut faults);
        }
        10 => match rng.below(4) {
            3 => {
                if !periodic_faults(rng, s, Some(s.t()), &mut faults) {
                    burst_faults(rng, s, Some(s.t()), &mut faults)
                }
            }
            0 => burst_faults(rng, s, Some(s.t()), &mut faults),
            1 => {
                if !toward_faults(rng, s, true, &mut faults) {
                    burst_faults(rng, s, Some(s.t()), &mut faults)
                }
            }
            _ => {
                if !twin_block_faults(ctx, rng, s, &mut faults) && !toward_faults(rng, s, true, &mut faults) {
                    burst_faults(rng, s, Some(s.t()), &mut faults)
                }
            }
        },
        11 => {
            // sparse locator polynomials: complete cosets of a multiplicative subgroup (plus a few free errors)
            let b = rng.below(s.blocks);
            match coset_groups(rng, s, b, s.t()) {
                Some(groups) => {
                    // values: one for all, one per coset (many singular jumps), or free
                    let vmode = rng.below(3);
                    let one = rng.nonzero_byte();
                    let mut ps: Vec<usize> = Vec::new();
                    for g in &groups {
                        let per = rng.nonzero_byte();
                        for p in g {
                            let m = match vmode {
                                0 => one,
                                1 => per,
                                _ => rng.nonzero_byte(),
                            };
                            ps.push(*p);
                            faults.push(Fault::new("cw_coset", Op::CwXor { pos: *p as u32, mask: m }));
                        }
                    }
                    let room = s.t() - ps.len();
                    if room > 0 && rng.chance(1, 4) {
                        let extra = rng.range(1, room);
                        for p in pick_block_positions(rng, s, b, extra, Region::Both, PosPattern::Uniform) {
                            if !ps.contains(&p) {
                                ps.push(p);
                                faults.push(Fault::new("cw_coset", Op::CwXor { pos: p as u32, mask: rng.nonzero_byte() }));
                            }
                        }
                    }
                }
                None => burst_faults(rng, s, Some(s.t()), &mut faults),
            }
        }
        13 if rng.chance(1, 5) && foreign_recurrence_faults(ctx, rng, s, &mut faults) => {}
        13 if rng.chance(1, 4) && thinned_phantom_faults(ctx, rng, s, &mut faults) => {}
        13 => {
            faults.clear();
            let b = rng.below(s.blocks);
            if !phantom_faults(ctx, rng, s, b, true, &mut faults) {
                let w = bounded_weights(rng, s);
                weighted_cw_faults(rng, s, &w, &mut faults);
            }
        }
        12 => {
            if !cancel_faults(ctx, rng, s, &mut faults) {
                let w = bounded_weights(rng, s);
                weighted_cw_faults(rng, s, &w, &mut faults);
            }
        }
        14..=16 => {
            // chosen codewords, damaged through their modules
            cw_stage = false;
            let w = bounded_weights(rng, s);
            let mut tmp = Vec::new();
            let positions = weighted_cw_faults(rng, s, &w, &mut tmp);
            cw_via_pixels(ctx, rng, s, &positions, &mut faults);
        }
        _ => {
            cw_stage = false;
            data_module_faults(ctx, rng, s, Some(s.t()), &mut faults)
        }
    }
    faults_out.extend(faults);
    cw_stage
}

fn gen_c09(ctx: &Ctx, rng: &mut Rng, i: u64) -> Trace {
    let s = &SIZES[pick_size(rng, i, true)];
    if s.blocks > 1 && rng.chance(1, 30) {
        if let Some(mut t) = nested_locator_trace(ctx, rng, s) {
            t.prop = "C09".into();
            return t;
        }
    }
    let producer = producer_for_size(rng, s, 5);
    let mut faults = Vec::new();
    if rng.chance(1, 40) {
        if let Some(d) = producer_data(&producer, s) {
            if foreign_ec_faults(rng, s, &d, &mut faults) {
                return Trace { prop: "C09".into(), producer, faults };
            }
        }
        faults.clear();
    }
    beyond_radius_faults(ctx, rng, s, &mut faults);
    if s.blocks > 1 && rng.chance(1, 6) {
        faults.clear();
        cross_block_faults(ctx, rng, s, &mut faults);
        return Trace { prop: "C09".into(), producer, faults };
    }
    // several blocks uncorrectable / specially damaged at once
    if s.blocks > 1 && rng.chance(1, 4) {
        beyond_radius_faults(ctx, rng, s, &mut faults);
        if rng.chance(1, 3) {
            beyond_radius_faults(ctx, rng, s, &mut faults);
        }
    }
    Trace { prop: "C09".into(), producer, faults }
}

fn gen_c05(ctx: &Ctx, rng: &mut Rng, i: u64) -> Trace {
    let mut faults = Vec::new();
    let scenario = if i < (2 * N_SIZES) as u64 { 0 } else { rng.below(100) };
    match scenario {
        0..=34 => {
            // codeword damage of every density
            let s = &SIZES[pick_size(rng, i, true)];
            let producer = producer_for_size(rng, s, 10);
            if rng.chance(1, 40) {
                if let Some(d) = producer_data(&producer, s) {
                    if foreign_ec_faults(rng, s, &d, &mut faults) {
                        return Trace { prop: "C05".into(), producer, faults };
                    }
                }
                faults.clear();
            }
            beyond_radius_faults(ctx, rng, s, &mut faults);
            Trace { prop: "C05".into(), producer, faults }
        }
        35..=64 => {
            // the message encoder's real output (all modes, macro, FNC1, ECI) with sender-side damage
            let s = &SIZES[if rng.chance(3, 4) { rng.below(14) } else { pick_size(rng, i, false) }];
            let eci = if rng.chance(1, 2) { Some(*rng.pick(ECIS)) } else { None };
            let producer = msg_producer_for_size(rng, s, eci);
            if rng.chance(4, 5) {
                sender_faults(rng, s.n_data, &mut faults);
            }
            if rng.chance(1, 4) {
                let w = bounded_weights(rng, s);
                weighted_cw_faults(rng, s, &w, &mut faults);
            }
            Trace { prop: "C05".into(), producer, faults }
        }
        65..=79 => {
            // pixel / geometry damage
            let s = &SIZES[pick_size(rng, i, false)];
            let producer = producer_for_size(rng, s, 10);
            let n = rng.range(1, 3);
            for _ in 0..n {
                match rng.below(5) {
                    0 => data_module_faults(ctx, rng, s, None, &mut faults),
                    1 => fixed_module_faults(ctx, rng, s, &mut faults),
                    2 => fixed_track_faults(rng, s, &mut faults),
                    _ => geometry_fault(rng, s, &mut faults),
                }
            }
            Trace { prop: "C05".into(), producer, faults }
        }
        80..=89 => {
            // no producer at all: the medium fabricates the pixel buffer
            replace_fault(ctx, rng, &mut faults);
            Trace { prop: "C05".into(), producer: Producer::Stream { data: vec![] }, faults }
        }
        _ => {
            // no producer at all: a fabricated data codeword stream goes straight to the data decoders,
            // or rides in a valid symbol (padded to a size's data length, EC computed by the real encoder)
            let data = if rng.chance(2, 3) { fabricate_stream(rng) } else { gen_stream(rng) };
            if rng.chance(1, 3) {
                let fitting: Vec<&SizeInfo> = SIZES.iter().filter(|s| s.n_data >= data.len()).collect();
                let chosen = if fitting.is_empty() {
                    None
                } else if rng.chance(1, 2) {
                    fitting.iter().min_by_key(|s| s.n_data).copied()
                } else {
                    Some(*rng.pick(&fitting))
                };
                if let Some(s) = chosen {
                    let mut d = data.clone();
                    if rng.chance(1, 4) {
                        // right-aligned: the construct ends exactly at the end of the data region
                        let fill = s.n_data - d.len();
                        let mut pre: Vec<u8> = (0..fill).map(|_| rng.range(1, 128) as u8).collect();
                        pre.extend_from_slice(&d);
                        d = pre;
                    }
                    let pad_mode = rng.below(3);
                    while d.len() < s.n_data {
                        d.push(match pad_mode {
                            0 => 129,
                            1 => rng.byte(),
                            _ => {
                                if rng.chance(1, 2) {
                                    129
                                } else {
                                    rng.byte()
                                }
                            }
                        });
                    }
                    faults.push(Fault::new("snd_fabricate", Op::SndSet { pos: 0, val: d[0] }));
                    return Trace { prop: "C05".into(), producer: Producer::Raw { size: s.idx, data: d }, faults };
                }
            }
            Trace { prop: "C05".into(), producer: Producer::Stream { data }, faults }
        }
    }
}

fn gen_c08(ctx: &Ctx, rng: &mut Rng, i: u64) -> Trace {
    let mut faults = Vec::new();
    let scenario = if i < (2 * N_SIZES) as u64 { 0 } else { rng.below(100) };
    if scenario >= 85 {
        replace_fault(ctx, rng, &mut faults);
        return Trace { prop: "C08".into(), producer: Producer::Stream { data: vec![] }, faults };
    }
    let s = &SIZES[pick_size(rng, i, false)];
    let producer = Producer::Raw { size: s.idx, data: raw_data(rng, s) };
    // arbitrary matrix content, not only valid RS words: random, or every module dark / light / striped
    if rng.chance(1, 3) {
        let constant: Option<u8> = match rng.below(8) {
            0 | 1 => Some(0xFF),
            2 => Some(0x00),
            3 => Some(*rng.pick(&[0xAAu8, 0x55, 0x0F, 0xF0, 0x80, 0x01])),
            _ => None,
        };
        for p in 0..s.n_total() {
            faults.push(Fault::new("cw_replace", Op::CwSet { pos: p as u32, val: constant.unwrap_or_else(|| rng.byte()) }));
        }
    }
    if rng.chance(1, 10) {
        // the caller hands the renderer a buffer longer than the symbol needs
        let n = *rng.pick(&[1u32, 2, 3, 4, 8, 100, 300, 2000]);
        faults.push(Fault::new("snd_surplus", Op::CwSurplus { n, val: rng.byte() }));
    }
    match scenario {
        0..=9 => {} // forward direction only
        10..=34 => data_module_faults(ctx, rng, s, None, &mut faults),
        35..=49 => fixed_module_faults(ctx, rng, s, &mut faults),
        50..=59 => fixed_track_faults(rng, s, &mut faults),
        60..=74 => geometry_fault(rng, s, &mut faults),
        _ => {
            let n = rng.range(2, 3);
            for _ in 0..n {
                match rng.below(4) {
                    0 => data_module_faults(ctx, rng, s, None, &mut faults),
                    1 => fixed_module_faults(ctx, rng, s, &mut faults),
                    2 => fixed_track_faults(rng, s, &mut faults),
                    _ => geometry_fault(rng, s, &mut faults),
                }
            }
        }
    }
    Trace { prop: "C08".into(), producer, faults }
}

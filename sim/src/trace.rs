//! A run, frozen as an explicit trace: producer inputs + explicit primitive fault list.
//! Replay executes a trace without consulting any generator code.

use crate::json::{self, J};

pub const KINDS: &[&str] = &[
    "cw_subst",        // 0
    "cw_bitflip",      // 1
    "cw_stuck00",      // 2
    "cw_stuckFF",      // 3
    "cw_burst",        // 4
    "cw_block_burst",  // 5
    "cw_edge",         // 6
    "cw_cancel",       // 7
    "cw_aligned",      // 8
    "cw_replace",      // 9
    "mod_flip",        // 10
    "mod_blot",        // 11
    "mod_scratch",     // 12
    "fix_flip",        // 13
    "fix_blot",        // 14
    "geo_trunc",       // 15
    "geo_extend",      // 16
    "geo_row_drop",    // 17
    "geo_row_dup",     // 18
    "geo_col_drop",    // 19
    "geo_col_dup",     // 20
    "geo_width_skew",  // 21
    "geo_empty",       // 22
    "geo_rot",         // 23
    "geo_mirror",      // 24
    "geo_invert",      // 25
    "geo_replace",     // 26
    "snd_subst",       // 27
    "snd_bitflip",     // 28
    "snd_stuck00_run", // 29
    "snd_stuckFF_run", // 30
    "snd_swap",        // 31
    "snd_dup",         // 32
    "snd_replace",     // 33
    "snd_craft",       // 34
    "px_single",       // 35 (systematic single-pixel sweep)
    "cw_single",       // 36 (systematic single-codeword sweep)
    "cw_pair",         // 37 (systematic weight-2 sweep)
    "cw_ghost",        // 38 (syndromes of an error at a position outside the shortened block)
    "snd_fabricate",   // 39 (token-built data codeword stream)
    "fix_track",       // 40 (a whole finder/clock/alignment track or a segment of it inverted / stuck)
    "fix_pair",        // 41 (systematic: two adjacent fixed modules flipped)
    "cw_phantom",      // 42 (errors whose first L syndromes equal those of a smaller, different error pattern)
    "cw_syndrome",     // 43 (a crafted syndrome vector realised in the EC part: LFSR-consistent with discrepancies)
    "cw_coset",        // 44 (errors on complete cosets of a multiplicative subgroup: binomial / sparse locators)
    "history",         // 45 (separator between consecutive calls of a history)
    "cw_impostor",     // 46 (received data codewords replaced by those ANOTHER valid message would have put there)
    "cw_toward",       // 47 (a subset of the difference to a neighbouring codeword: between two codewords)
    "cw_twin",         // 48 (identical damage - same degrees, same values - in several blocks: identical syndromes)
    "snd_foreign_ec",  // 49 (EC part as a plausible non-conforming encoder writes it: valid RS words in the wrong places)
    "mod_mimic",       // 50 (whole data rows / columns painted like the fixed pattern: solid or clock-like)
    "geo_frame",       // 51 (the symbol embedded in a frame of light / dark / alternating modules: a captured quiet zone)
    "cw_foreign",      // 52 (in-radius errors whose syndromes obey ANOTHER block's recurrence on a chosen set of rows)
    "snd_surplus",     // 53 (the renderer is handed a codeword buffer longer than the symbol needs)
    "cw_uniform",      // 54 (stuck-at damage that completes a uniform region - all 0xFF, say - in the received word)
    "cw_other",        // 55 (the complete difference to ANOTHER codeword vector: the in-radius damage then lies around that one; premise by the reference model)
];

pub fn kind_id(name: &str) -> u8 {
    KINDS
        .iter()
        .position(|k| *k == name)
        .unwrap_or_else(|| panic!("unknown fault kind {}", name)) as u8
}

#[derive(Clone, Debug, PartialEq)]
pub enum Op {
    // S1: data codewords, before the EC part is computed
    SndXor { pos: u32, mask: u8 },
    SndSet { pos: u32, val: u8 },
    SndSwap { a: u32, b: u32 },
    /// copy codeword pos into pos+1.., shifting the rest right and dropping the last
    SndDup { pos: u32 },
    // S2: data || EC codewords
    CwXor { pos: u32, mask: u8 },
    CwSet { pos: u32, val: u8 },
    /// the producer hands the renderer a codeword vector with `n` surplus bytes (value `val`) behind the symbol's own
    /// codewords - a caller reusing a larger buffer; the surplus must be ignored
    CwSurplus { n: u32, val: u8 },
    // S4: pixel buffer + width
    PxFlip { idx: u32 },
    PxSet { idx: u32, val: bool },
    GeoTrunc { len: u32 },
    GeoExtend { bits: Vec<bool> },
    GeoRowDrop { r: u32 },
    GeoRowDup { r: u32 },
    GeoColDrop { c: u32 },
    GeoColDup { c: u32 },
    GeoWidth { w: u32 },
    /// the array embedded in a frame of `n` modules on every side (fill 0 = light, 1 = dark, 2 = alternating):
    /// a captured quiet zone / a crop taken too wide
    GeoFrame { n: u32, fill: u32 },
    /// every module drawn as k x k pixels (an image at a higher resolution than one pixel per module)
    GeoScale { k: u32 },
    /// a margin of `n` modules on ONE side (0 = right, 1 = left, 2 = bottom, 3 = top; fill as for GeoFrame): rows padded
    /// to a byte or word boundary, a crop that is off on one side
    GeoMargin { side: u32, n: u32, fill: u32 },
    /// widths that do not fit 32 bits (see `huge_width`)
    GeoWidthHuge { code: u32 },
    /// the array replaced by an all-light one whose LENGTH is a catalogue pixel count plus 2^32 (see `huge_blank`);
    /// built lazily from zeroed pages, so it costs nothing unless the consumer reads all of it
    GeoHugeBlank { code: u32 },
    GeoEmpty,
    GeoRot { q: u8 },
    GeoMirror,
    GeoInvert,
    GeoReplace { bits: Vec<bool>, w: u32 },
    /// Separator, not a fault: the faults before it describe an EARLIER call of the consumer on the same
    /// producer output (a history: call, call, ..., call); the faults after the last separator are the call
    /// whose outcome is checked. Exercises state that a decoder might carry from one call to the next.
    NextCall,
}

/// Arrays whose pixel COUNT aliases a catalogue size when truncated to 32 bits: (rows x width) of a catalogue size
/// with a power-of-two width, plus 2^32 pixels (whole rows, so the array is not ragged). (length, width).
pub const N_HUGE_BLANKS: u32 = 6;
pub fn huge_blank(code: u32) -> (usize, usize) {
    let extra = 1usize << 32;
    match code {
        0 => (16 * 16 + extra, 16),
        1 => (8 * 32 + extra, 32),
        2 => (32 * 32 + extra, 32),
        3 => (8 * 64 + extra, 64),
        4 => (64 * 64 + extra, 64),
        _ => (extra, 16),
    }
}

/// Extreme widths: the ends of the usize range, the 2^31 / 2^32 / 2^63 boundaries, and catalogue widths plus 2^32
/// (aliases of a valid width when a width is truncated to 32 bits).
pub const N_HUGE_WIDTHS: u32 = 24;
pub fn huge_width(code: u32) -> usize {
    let m = usize::MAX;
    match code {
        0 => m,
        1 => m - 1,
        2 => m / 2,
        3 => m / 2 + 1,
        4 => m / 2 + 2,
        5 => (1usize << 32) - 1,
        6 => 1usize << 32,
        7 => (1usize << 32) + 1,
        8 => (1usize << 31) - 1,
        9 => 1usize << 31,
        10 => (1usize << 31) + 1,
        11 => m - 9,
        12 => m - 143,
        13 => (1usize << 32) + 10,
        14 => (1usize << 32) + 18,
        15 => (1usize << 32) + 32,
        16 => (1usize << 32) + 144,
        17 => (1usize << 48) + 12,
        18 => (1usize << 63) + 10,
        19 => (1usize << 63) + 144,
        20 => m / 3,
        21 => m / 10,
        22 => m / 144,
        _ => 1usize << 62,
    }
}

#[derive(Clone, Copy, Debug, PartialEq, Eq)]
pub enum Stage {
    S1,
    S2,
    S4,
}

impl Op {
    pub fn stage(&self) -> Stage {
        match self {
            Op::SndXor { .. } | Op::SndSet { .. } | Op::SndSwap { .. } | Op::SndDup { .. } => Stage::S1,
            Op::CwXor { .. } | Op::CwSet { .. } | Op::CwSurplus { .. } | Op::NextCall => Stage::S2,
            _ => Stage::S4,
        }
    }
    pub fn is_geo(&self) -> bool {
        self.stage() == Stage::S4 && !matches!(self, Op::PxFlip { .. } | Op::PxSet { .. })
    }
}

#[derive(Clone, Debug, PartialEq)]
pub struct Fault {
    pub kind: u8,
    pub op: Op,
}

impl Fault {
    pub fn new(kind: &str, op: Op) -> Fault {
        Fault { kind: kind_id(kind), op }
    }
}

#[derive(Clone, Debug, PartialEq)]
pub enum ListSpec {
    Single(usize),
    Default,
    Extended,
    Subset(Vec<usize>),
}

#[derive(Clone, Debug, PartialEq)]
pub enum Producer {
    /// Seeded data codewords fed to the real `encode_error`
    Raw { size: usize, data: Vec<u8> },
    /// The real message encoder
    Msg {
        msg: Vec<u8>,
        list: ListSpec,
        modes: u8,
        macros: bool,
        fnc1: bool,
        eci: Option<u32>,
    },
    /// No producer: the medium fabricates the pixel buffer / codeword stream itself
    /// (density-1 limit). `data` is handed to decode_data/decode_str directly.
    Stream { data: Vec<u8> },
}

#[derive(Clone, Debug, PartialEq)]
pub struct Trace {
    pub prop: String,
    pub producer: Producer,
    pub faults: Vec<Fault>,
}

// ---------- applying faults ----------

/// Apply all S1 faults, returns number that fired per fault (by index).
pub fn apply_s1(faults: &[Fault], data: &mut Vec<u8>, fired: &mut [bool]) {
    for (fi, f) in faults.iter().enumerate() {
        let n = data.len();
        match &f.op {
            Op::SndXor { pos, mask } => {
                let p = *pos as usize;
                if p < n && *mask != 0 {
                    data[p] ^= *mask;
                    fired[fi] = true;
                }
            }
            Op::SndSet { pos, val } => {
                let p = *pos as usize;
                if p < n && data[p] != *val {
                    data[p] = *val;
                    fired[fi] = true;
                }
            }
            Op::SndSwap { a, b } => {
                let (a, b) = (*a as usize, *b as usize);
                if a < n && b < n && data[a] != data[b] {
                    data.swap(a, b);
                    fired[fi] = true;
                }
            }
            Op::SndDup { pos } => {
                let p = *pos as usize;
                if p + 1 < n {
                    let before = data.clone();
                    let v = data[p];
                    data.insert(p + 1, v);
                    data.pop();
                    if *data != before {
                        fired[fi] = true;
                    }
                }
            }
            _ => {}
        }
    }
}

/// Surplus bytes the producer passes to the renderer behind the symbol's codewords.
pub fn surplus_of(faults: &[Fault]) -> Vec<u8> {
    let mut out = Vec::new();
    for f in faults {
        if let Op::CwSurplus { n, val } = &f.op {
            for i in 0..*n {
                out.push(val.wrapping_add((i % 251) as u8));
            }
        }
    }
    out
}

pub fn apply_s2(faults: &[Fault], cw: &mut [u8], fired: &mut [bool]) {
    for (fi, f) in faults.iter().enumerate() {
        let n = cw.len();
        match &f.op {
            Op::CwXor { pos, mask } => {
                let p = *pos as usize;
                if p < n && *mask != 0 {
                    cw[p] ^= *mask;
                    fired[fi] = true;
                }
            }
            Op::CwSet { pos, val } => {
                let p = *pos as usize;
                if p < n && cw[p] != *val {
                    cw[p] = *val;
                    fired[fi] = true;
                }
            }
            Op::CwSurplus { n: extra, .. } => {
                // applied by the executor at the rendering call only (see `surplus_of`)
                if *extra > 0 {
                    fired[fi] = true;
                }
            }
            _ => {}
        }
    }
}

pub fn apply_s4(faults: &[Fault], px: &mut Vec<bool>, width: &mut usize, fired: &mut [bool]) {
    for (fi, f) in faults.iter().enumerate() {
        let n = px.len();
        let w = *width;
        let rect = w > 0 && n % w == 0;
        let h = if rect { n / w } else { 0 };
        match &f.op {
            Op::PxFlip { idx } => {
                let i = *idx as usize;
                if i < n {
                    px[i] = !px[i];
                    fired[fi] = true;
                }
            }
            Op::PxSet { idx, val } => {
                let i = *idx as usize;
                if i < n && px[i] != *val {
                    px[i] = *val;
                    fired[fi] = true;
                }
            }
            Op::GeoTrunc { len } => {
                let l = *len as usize;
                if l < n {
                    px.truncate(l);
                    fired[fi] = true;
                }
            }
            Op::GeoExtend { bits } => {
                if !bits.is_empty() {
                    px.extend_from_slice(bits);
                    fired[fi] = true;
                }
            }
            Op::GeoRowDrop { r } => {
                let r = *r as usize;
                if rect && r < h {
                    px.drain(r * w..(r + 1) * w);
                    fired[fi] = true;
                }
            }
            Op::GeoRowDup { r } => {
                let r = *r as usize;
                if rect && r < h {
                    let row: Vec<bool> = px[r * w..(r + 1) * w].to_vec();
                    let at = (r + 1) * w;
                    let tail = px.split_off(at);
                    px.extend_from_slice(&row);
                    px.extend_from_slice(&tail);
                    fired[fi] = true;
                }
            }
            Op::GeoColDrop { c } => {
                let c = *c as usize;
                if rect && c < w && w > 1 {
                    let mut out = Vec::with_capacity(n - h);
                    for (i, b) in px.iter().enumerate() {
                        if i % w != c {
                            out.push(*b);
                        }
                    }
                    *px = out;
                    *width = w - 1;
                    fired[fi] = true;
                }
            }
            Op::GeoFrame { n: fr, fill } => {
                let fr = *fr as usize;
                if rect && fr > 0 && w > 0 {
                    let nw = w + 2 * fr;
                    let nh = h + 2 * fr;
                    let mut out = Vec::with_capacity(nw * nh);
                    for r in 0..nh {
                        for c in 0..nw {
                            let inside = r >= fr && r < fr + h && c >= fr && c < fr + w;
                            out.push(if inside {
                                px[(r - fr) * w + (c - fr)]
                            } else {
                                match fill {
                                    0 => false,
                                    1 => true,
                                    _ => (r + c) % 2 == 0,
                                }
                            });
                        }
                    }
                    *px = out;
                    *width = nw;
                    fired[fi] = true;
                }
            }
            Op::GeoScale { k } => {
                // k < 16: every module drawn as k x k pixels; k >= 16: anisotropic, (k & 15) pixels wide and (k >> 4)
                // pixels high (a capture with non-square pixels, text output with two cells per module)
                let (kx, ky) = if *k < 16 { (*k as usize, *k as usize) } else { ((*k & 15) as usize, (*k >> 4) as usize) };
                if rect && kx >= 1 && ky >= 1 && kx * ky > 1 && w > 0 && n * kx * ky <= 4_000_000 {
                    let mut out = Vec::with_capacity(n * kx * ky);
                    for r in 0..h * ky {
                        for c in 0..w * kx {
                            out.push(px[(r / ky) * w + c / kx]);
                        }
                    }
                    *px = out;
                    *width = w * kx;
                    fired[fi] = true;
                }
            }
            Op::GeoMargin { side, n: mg, fill } => {
                let mg = *mg as usize;
                if rect && mg > 0 && w > 0 {
                    let (l, r, tp, bt) = match side {
                        0 => (0, mg, 0, 0),
                        1 => (mg, 0, 0, 0),
                        2 => (0, 0, 0, mg),
                        _ => (0, 0, mg, 0),
                    };
                    let nw = w + l + r;
                    let nh = h + tp + bt;
                    let mut out = Vec::with_capacity(nw * nh);
                    for rr in 0..nh {
                        for cc in 0..nw {
                            let inside = rr >= tp && rr < tp + h && cc >= l && cc < l + w;
                            out.push(if inside {
                                px[(rr - tp) * w + (cc - l)]
                            } else {
                                match fill {
                                    0 => false,
                                    1 => true,
                                    _ => (rr + cc) % 2 == 0,
                                }
                            });
                        }
                    }
                    *px = out;
                    *width = nw;
                    fired[fi] = true;
                }
            }
            Op::GeoColDup { c } => {
                let c = *c as usize;
                if rect && c < w {
                    let mut out = Vec::with_capacity(n + h);
                    for (i, b) in px.iter().enumerate() {
                        out.push(*b);
                        if i % w == c {
                            out.push(*b);
                        }
                    }
                    *px = out;
                    *width = w + 1;
                    fired[fi] = true;
                }
            }
            Op::GeoWidth { w: nw } => {
                if *nw as usize != w {
                    *width = *nw as usize;
                    fired[fi] = true;
                }
            }
            Op::GeoWidthHuge { code } => {
                let nw = huge_width(*code);
                if nw != w {
                    *width = nw;
                    fired[fi] = true;
                }
            }
            Op::GeoHugeBlank { code } => {
                let (len, nw) = huge_blank(*code);
                *px = vec![false; len];
                *width = nw;
                fired[fi] = true;
            }
            Op::GeoEmpty => {
                if n > 0 {
                    px.clear();
                    fired[fi] = true;
                }
            }
            Op::GeoRot { q } => {
                if rect && q % 4 != 0 {
                    let mut cur = px.clone();
                    let (mut ch, mut cw) = (h, w);
                    for _ in 0..(q % 4) {
                        // rotate 90 degrees clockwise: new[r][c] = old[ch-1-c][r]
                        let (nh, nw) = (cw, ch);
                        let mut nx = vec![false; cur.len()];
                        for r in 0..nh {
                            for c in 0..nw {
                                nx[r * nw + c] = cur[(ch - 1 - c) * cw + r];
                            }
                        }
                        cur = nx;
                        ch = nh;
                        cw = nw;
                    }
                    *px = cur;
                    *width = cw;
                    fired[fi] = true;
                }
            }
            Op::GeoMirror => {
                if rect {
                    for r in 0..h {
                        px[r * w..(r + 1) * w].reverse();
                    }
                    fired[fi] = true;
                }
            }
            Op::GeoInvert => {
                if n > 0 {
                    for b in px.iter_mut() {
                        *b = !*b;
                    }
                    fired[fi] = true;
                }
            }
            Op::GeoReplace { bits, w: nw } => {
                *px = bits.clone();
                *width = *nw as usize;
                fired[fi] = true;
            }
            _ => {}
        }
    }
}

// ---------- JSON ----------

fn op_to_json(op: &Op) -> J {
    let a = |name: &str, rest: Vec<J>| {
        let mut v = vec![J::s(name)];
        v.extend(rest);
        J::Arr(v)
    };
    match op {
        Op::SndXor { pos, mask } => a("snd_xor", vec![J::i(*pos as usize), J::i(*mask as usize)]),
        Op::SndSet { pos, val } => a("snd_set", vec![J::i(*pos as usize), J::i(*val as usize)]),
        Op::SndSwap { a: x, b } => a("snd_swap", vec![J::i(*x as usize), J::i(*b as usize)]),
        Op::SndDup { pos } => a("snd_dup", vec![J::i(*pos as usize)]),
        Op::CwXor { pos, mask } => a("cw_xor", vec![J::i(*pos as usize), J::i(*mask as usize)]),
        Op::CwSet { pos, val } => a("cw_set", vec![J::i(*pos as usize), J::i(*val as usize)]),
        Op::CwSurplus { n, val } => a("cw_surplus", vec![J::i(*n as usize), J::i(*val as usize)]),
        Op::PxFlip { idx } => a("px_flip", vec![J::i(*idx as usize)]),
        Op::PxSet { idx, val } => a("px_set", vec![J::i(*idx as usize), J::Bool(*val)]),
        Op::GeoTrunc { len } => a("geo_trunc", vec![J::i(*len as usize)]),
        Op::GeoExtend { bits } => a("geo_extend", vec![J::Str(json::bits_str(bits))]),
        Op::GeoRowDrop { r } => a("geo_row_drop", vec![J::i(*r as usize)]),
        Op::GeoRowDup { r } => a("geo_row_dup", vec![J::i(*r as usize)]),
        Op::GeoColDrop { c } => a("geo_col_drop", vec![J::i(*c as usize)]),
        Op::GeoColDup { c } => a("geo_col_dup", vec![J::i(*c as usize)]),
        Op::GeoFrame { n, fill } => a("geo_frame", vec![J::i(*n as usize), J::i(*fill as usize)]),
        Op::GeoScale { k } => a("geo_scale", vec![J::i(*k as usize)]),
        Op::GeoMargin { side, n, fill } => a("geo_margin", vec![J::i(*side as usize), J::i(*n as usize), J::i(*fill as usize)]),
        Op::GeoWidth { w } => a("geo_width", vec![J::i(*w as usize)]),
        Op::GeoWidthHuge { code } => a("geo_width_huge", vec![J::i(*code as usize)]),
        Op::GeoHugeBlank { code } => a("geo_huge_blank", vec![J::i(*code as usize)]),
        Op::GeoEmpty => a("geo_empty", vec![]),
        Op::GeoRot { q } => a("geo_rot", vec![J::i(*q as usize)]),
        Op::GeoMirror => a("geo_mirror", vec![]),
        Op::GeoInvert => a("geo_invert", vec![]),
        Op::NextCall => a("next_call", vec![]),
        Op::GeoReplace { bits, w } => a(
            "geo_replace",
            vec![J::Str(json::bits_str(bits)), J::i(*w as usize)],
        ),
    }
}

fn op_from_json(j: &J) -> Result<Op, String> {
    let a = j.as_arr().ok_or("op not an array")?;
    let name = a.first().and_then(|x| x.as_str()).ok_or("op name")?;
    let n = |i: usize| -> Result<u32, String> {
        a.get(i)
            .and_then(|x| x.as_i64())
            .map(|x| x as u32)
            .ok_or_else(|| format!("op {} arg {}", name, i))
    };
    let s = |i: usize| -> Result<&str, String> {
        a.get(i)
            .and_then(|x| x.as_str())
            .ok_or_else(|| format!("op {} arg {}", name, i))
    };
    Ok(match name {
        "snd_xor" => Op::SndXor { pos: n(1)?, mask: n(2)? as u8 },
        "snd_set" => Op::SndSet { pos: n(1)?, val: n(2)? as u8 },
        "snd_swap" => Op::SndSwap { a: n(1)?, b: n(2)? },
        "snd_dup" => Op::SndDup { pos: n(1)? },
        "cw_xor" => Op::CwXor { pos: n(1)?, mask: n(2)? as u8 },
        "cw_set" => Op::CwSet { pos: n(1)?, val: n(2)? as u8 },
        "cw_surplus" => Op::CwSurplus { n: n(1)?, val: n(2)? as u8 },
        "px_flip" => Op::PxFlip { idx: n(1)? },
        "px_set" => Op::PxSet {
            idx: n(1)?,
            val: a.get(2).and_then(|x| x.as_bool()).ok_or("px_set val")?,
        },
        "geo_trunc" => Op::GeoTrunc { len: n(1)? },
        "geo_extend" => Op::GeoExtend { bits: json::unbits(s(1)?) },
        "geo_row_drop" => Op::GeoRowDrop { r: n(1)? },
        "geo_row_dup" => Op::GeoRowDup { r: n(1)? },
        "geo_col_drop" => Op::GeoColDrop { c: n(1)? },
        "geo_col_dup" => Op::GeoColDup { c: n(1)? },
        "geo_frame" => Op::GeoFrame { n: n(1)?, fill: n(2)? },
        "geo_scale" => Op::GeoScale { k: n(1)? },
        "geo_margin" => Op::GeoMargin { side: n(1)?, n: n(2)?, fill: n(3)? },
        "geo_width" => Op::GeoWidth { w: n(1)? },
        "geo_width_huge" => Op::GeoWidthHuge { code: n(1)? },
        "geo_huge_blank" => Op::GeoHugeBlank { code: n(1)? },
        "geo_empty" => Op::GeoEmpty,
        "geo_rot" => Op::GeoRot { q: n(1)? as u8 },
        "geo_mirror" => Op::GeoMirror,
        "geo_invert" => Op::GeoInvert,
        "geo_replace" => Op::GeoReplace { bits: json::unbits(s(1)?), w: n(2)? },
        "next_call" => Op::NextCall,
        other => return Err(format!("unknown op {}", other)),
    })
}

impl Trace {
    pub fn to_json(&self) -> J {
        let producer = match &self.producer {
            Producer::Raw { size, data } => J::obj()
                .with("kind", J::s("raw"))
                .with("size", J::s(crate::catalogue::SIZES[*size].name))
                .with("data_hex", J::Str(json::hex(data))),
            Producer::Msg { msg, list, modes, macros, fnc1, eci } => {
                let l = match list {
                    ListSpec::Single(i) => J::obj().with("single", J::s(crate::catalogue::SIZES[*i].name)),
                    ListSpec::Default => J::s("default"),
                    ListSpec::Extended => J::s("extended"),
                    ListSpec::Subset(v) => J::obj().with(
                        "subset",
                        J::Arr(v.iter().map(|i| J::s(crate::catalogue::SIZES[*i].name)).collect()),
                    ),
                };
                J::obj()
                    .with("kind", J::s("msg"))
                    .with("msg_hex", J::Str(json::hex(msg)))
                    .with("msg_lossy", J::Str(String::from_utf8_lossy(msg).chars().take(80).collect()))
                    .with("list", l)
                    .with("modes", J::i(*modes as usize))
                    .with("macros", J::Bool(*macros))
                    .with("fnc1", J::Bool(*fnc1))
                    .with("eci", eci.map(|e| J::i(e as usize)).unwrap_or(J::Null))
            }
            Producer::Stream { data } => J::obj()
                .with("kind", J::s("stream"))
                .with("data_hex", J::Str(json::hex(data))),
        };
        let faults = J::Arr(
            self.faults
                .iter()
                .map(|f| {
                    let mut v = vec![J::s(KINDS[f.kind as usize])];
                    if let J::Arr(a) = op_to_json(&f.op) {
                        v.extend(a);
                    }
                    J::Arr(v)
                })
                .collect(),
        );
        J::obj()
            .with("prop", J::s(&self.prop))
            .with("producer", producer)
            .with("faults", faults)
    }

    pub fn from_json(j: &J) -> Result<Trace, String> {
        let prop = j.get("prop").and_then(|x| x.as_str()).ok_or("prop")?.to_string();
        let p = j.get("producer").ok_or("producer")?;
        let size_idx = |name: &str| -> Result<usize, String> {
            crate::catalogue::SIZES
                .iter()
                .position(|s| s.name == name)
                .ok_or_else(|| format!("unknown size {}", name))
        };
        let producer = match p.get("kind").and_then(|x| x.as_str()).ok_or("producer.kind")? {
            "raw" => Producer::Raw {
                size: size_idx(p.get("size").and_then(|x| x.as_str()).ok_or("size")?)?,
                data: json::unhex(p.get("data_hex").and_then(|x| x.as_str()).ok_or("data_hex")?)?,
            },
            "stream" => Producer::Stream {
                data: json::unhex(p.get("data_hex").and_then(|x| x.as_str()).ok_or("data_hex")?)?,
            },
            "msg" => {
                let l = p.get("list").ok_or("list")?;
                let list = if let Some(s) = l.as_str() {
                    match s {
                        "default" => ListSpec::Default,
                        "extended" => ListSpec::Extended,
                        _ => return Err("list".into()),
                    }
                } else if let Some(s) = l.get("single") {
                    ListSpec::Single(size_idx(s.as_str().ok_or("single")?)?)
                } else if let Some(s) = l.get("subset") {
                    let mut v = Vec::new();
                    for x in s.as_arr().ok_or("subset")? {
                        v.push(size_idx(x.as_str().ok_or("subset item")?)?);
                    }
                    ListSpec::Subset(v)
                } else {
                    return Err("list".into());
                };
                Producer::Msg {
                    msg: json::unhex(p.get("msg_hex").and_then(|x| x.as_str()).ok_or("msg_hex")?)?,
                    list,
                    modes: p.get("modes").and_then(|x| x.as_i64()).ok_or("modes")? as u8,
                    macros: p.get("macros").and_then(|x| x.as_bool()).ok_or("macros")?,
                    fnc1: p.get("fnc1").and_then(|x| x.as_bool()).ok_or("fnc1")?,
                    eci: p.get("eci").and_then(|x| x.as_i64()).map(|x| x as u32),
                }
            }
            other => return Err(format!("producer kind {}", other)),
        };
        let mut faults = Vec::new();
        for f in j.get("faults").and_then(|x| x.as_arr()).ok_or("faults")? {
            let a = f.as_arr().ok_or("fault")?;
            let kind = a.first().and_then(|x| x.as_str()).ok_or("fault kind")?;
            let kind = KINDS
                .iter()
                .position(|k| *k == kind)
                .ok_or_else(|| format!("unknown kind {}", kind))? as u8;
            let op = op_from_json(&J::Arr(a[1..].to_vec()))?;
            faults.push(Fault { kind, op });
        }
        Ok(Trace { prop, producer, faults })
    }

    /// Stable digest of the whole trace (for logs / determinism checks).
    pub fn digest(&self) -> u64 {
        let mut h = Fnv::new();
        h.bytes(self.prop.as_bytes());
        match &self.producer {
            Producer::Raw { size, data } => {
                h.u32(1);
                h.u32(*size as u32);
                h.bytes(data);
            }
            Producer::Msg { msg, list, modes, macros, fnc1, eci } => {
                h.u32(2);
                h.bytes(msg);
                match list {
                    ListSpec::Single(i) => {
                        h.u32(10);
                        h.u32(*i as u32);
                    }
                    ListSpec::Default => h.u32(11),
                    ListSpec::Extended => h.u32(12),
                    ListSpec::Subset(v) => {
                        h.u32(13);
                        for i in v {
                            h.u32(*i as u32);
                        }
                    }
                }
                h.u32(*modes as u32);
                h.u32(*macros as u32);
                h.u32(*fnc1 as u32);
                h.u32(eci.map(|e| e + 1).unwrap_or(0));
            }
            Producer::Stream { data } => {
                h.u32(3);
                h.bytes(data);
            }
        }
        for f in &self.faults {
            h.u32(f.kind as u32);
            match &f.op {
                Op::SndXor { pos, mask } => h.u32s(&[1, *pos, *mask as u32]),
                Op::SndSet { pos, val } => h.u32s(&[2, *pos, *val as u32]),
                Op::SndSwap { a, b } => h.u32s(&[3, *a, *b]),
                Op::SndDup { pos } => h.u32s(&[4, *pos]),
                Op::CwXor { pos, mask } => h.u32s(&[5, *pos, *mask as u32]),
                Op::CwSet { pos, val } => h.u32s(&[6, *pos, *val as u32]),
                Op::CwSurplus { n, val } => h.u32s(&[106, *n, *val as u32]),
                Op::PxFlip { idx } => h.u32s(&[7, *idx]),
                Op::PxSet { idx, val } => h.u32s(&[8, *idx, *val as u32]),
                Op::GeoTrunc { len } => h.u32s(&[9, *len]),
                Op::GeoExtend { bits } => {
                    h.u32(10);
                    h.bools(bits);
                }
                Op::GeoRowDrop { r } => h.u32s(&[11, *r]),
                Op::GeoRowDup { r } => h.u32s(&[12, *r]),
                Op::GeoColDrop { c } => h.u32s(&[13, *c]),
                Op::GeoColDup { c } => h.u32s(&[14, *c]),
                Op::GeoFrame { n, fill } => h.u32s(&[114, *n, *fill]),
                Op::GeoScale { k } => h.u32s(&[118, *k]),
                Op::GeoMargin { side, n, fill } => h.u32s(&[117, *side, *n, *fill]),
                Op::GeoWidth { w } => h.u32s(&[15, *w]),
                Op::GeoWidthHuge { code } => h.u32s(&[115, *code]),
                Op::GeoHugeBlank { code } => h.u32s(&[116, *code]),
                Op::GeoEmpty => h.u32(16),
                Op::GeoRot { q } => h.u32s(&[17, *q as u32]),
                Op::GeoMirror => h.u32(18),
                Op::GeoInvert => h.u32(19),
                Op::GeoReplace { bits, w } => {
                    h.u32s(&[20, *w]);
                    h.bools(bits);
                }
                Op::NextCall => h.u32(21),
            }
        }
        h.0
    }
}

/// Incremental FNV-1a.
pub struct Fnv(pub u64);

impl Fnv {
    pub fn new() -> Fnv {
        Fnv(0xcbf2_9ce4_8422_2325)
    }
    #[inline]
    pub fn byte(&mut self, b: u8) {
        self.0 ^= b as u64;
        self.0 = self.0.wrapping_mul(0x0000_0100_0000_01B3);
    }
    pub fn bytes(&mut self, bs: &[u8]) {
        self.u32(bs.len() as u32);
        for b in bs {
            self.byte(*b);
        }
    }
    pub fn u32(&mut self, x: u32) {
        for b in x.to_le_bytes() {
            self.byte(b);
        }
    }
    pub fn u32s(&mut self, xs: &[u32]) {
        for x in xs {
            self.u32(*x);
        }
    }
    pub fn bools(&mut self, bs: &[bool]) {
        self.u32(bs.len() as u32);
        for b in bs {
            self.byte(*b as u8);
        }
    }
}

//! The simulator's own GF(256) model (polynomial 0x12D, alpha = 2).
//!
//! Used to aim faults (`cw_cancel`, `cw_aligned`) and to label runs for the reach
//! probes - if it were wrong the algebraic faults would degrade to random ones
//! (visible in the probes) but could not raise an alarm - and, since round 23, as a
//! small executable REFERENCE MODEL of the error decoder (`bd_decode_block`, a
//! textbook Berlekamp-Massey bounded-distance decoder). The model's answer is
//! never believed as it stands: the executor accepts it as the premise of C03 only
//! after checking, with the crate's own `encode_error` (the property's definition
//! of "codeword"), that the word it proposes IS a codeword, and by counting that it
//! differs from the received word in at most floor(k/2) places per block. A wrong
//! model can therefore only lose premises, not raise an alarm.

pub struct Gf {
    pub exp: [u8; 512],
    pub log: [u16; 256],
}

impl Gf {
    pub fn new() -> Gf {
        let mut exp = [0u8; 512];
        let mut log = [0u16; 256];
        let mut x: u16 = 1;
        for i in 0..255 {
            exp[i] = x as u8;
            log[x as usize] = i as u16;
            x <<= 1;
            if x & 0x100 != 0 {
                x ^= 0x12D;
            }
        }
        for i in 255..512 {
            exp[i] = exp[i - 255];
        }
        Gf { exp, log }
    }

    #[inline]
    pub fn mul(&self, a: u8, b: u8) -> u8 {
        if a == 0 || b == 0 {
            0
        } else {
            self.exp[(self.log[a as usize] + self.log[b as usize]) as usize]
        }
    }

    #[inline]
    pub fn inv(&self, a: u8) -> u8 {
        debug_assert!(a != 0);
        self.exp[(255 - self.log[a as usize]) as usize]
    }

    #[inline]
    pub fn div(&self, a: u8, b: u8) -> u8 {
        self.mul(a, self.inv(b))
    }

    /// alpha^e
    #[inline]
    pub fn alpha_pow(&self, e: usize) -> u8 {
        self.exp[e % 255]
    }

    /// Evaluate polynomial (coefficients highest degree first) at x.
    pub fn eval(&self, poly_hi_first: &[u8], x: u8) -> u8 {
        let mut acc = 0u8;
        for c in poly_hi_first {
            acc = self.mul(acc, x) ^ *c;
        }
        acc
    }

    /// Syndromes S_1..S_k of a block word (highest degree first): S_j = r(alpha^j).
    pub fn syndromes(&self, word_hi_first: &[u8], k: usize) -> Vec<u8> {
        (1..=k)
            .map(|j| self.eval(word_hi_first, self.alpha_pow(j)))
            .collect()
    }

    /// prod_{i=1..j} (x - alpha^i), coefficients highest degree first (length j+1).
    pub fn partial_generator(&self, j: usize) -> Vec<u8> {
        let mut g = vec![1u8];
        for i in 1..=j {
            let a = self.alpha_pow(i);
            let mut ng = vec![0u8; g.len() + 1];
            for (d, c) in g.iter().enumerate() {
                ng[d] ^= *c; // * x
                ng[d + 1] ^= self.mul(*c, a); // * alpha^i
            }
            g = ng;
        }
        g
    }

    /// prod_{i in roots} (x - alpha^i), coefficients highest degree first.
    pub fn generator_for_roots(&self, roots: &[usize]) -> Vec<u8> {
        let mut g = vec![1u8];
        for i in roots {
            let a = self.alpha_pow(*i);
            let mut ng = vec![0u8; g.len() + 1];
            for (d, c) in g.iter().enumerate() {
                ng[d] ^= *c;
                ng[d + 1] ^= self.mul(*c, a);
            }
            g = ng;
        }
        g
    }

    /// e * x^d mod g(x) (g monic, highest degree first, degree k): k coefficients, highest degree first.
    pub fn monomial_mod(&self, e: u8, d: usize, g: &[u8]) -> Vec<u8> {
        let k = g.len() - 1;
        // remainder register, highest degree first, start with the constant e
        let mut r = vec![0u8; k];
        if k == 0 {
            return r;
        }
        r[k - 1] = e;
        for _ in 0..d {
            // multiply by x and reduce
            let top = r[0];
            for i in 0..k - 1 {
                r[i] = r[i + 1];
            }
            r[k - 1] = 0;
            if top != 0 {
                for i in 0..k {
                    r[i] ^= self.mul(top, g[i + 1]);
                }
            }
        }
        r
    }

    /// Polynomial product, highest degree first.
    pub fn poly_mul(&self, a: &[u8], b: &[u8]) -> Vec<u8> {
        if a.is_empty() || b.is_empty() {
            return vec![];
        }
        let mut out = vec![0u8; a.len() + b.len() - 1];
        for (i, x) in a.iter().enumerate() {
            if *x == 0 {
                continue;
            }
            for (j, y) in b.iter().enumerate() {
                out[i + j] ^= self.mul(*x, *y);
            }
        }
        out
    }

    /// Determinant of an n x n matrix (row major) by elimination.
    pub fn det(&self, m: &[u8], n: usize) -> u8 {
        let mut a = m.to_vec();
        let mut det = 1u8;
        for c in 0..n {
            let piv = (c..n).find(|r| a[r * n + c] != 0);
            let piv = match piv {
                Some(p) => p,
                None => return 0,
            };
            if piv != c {
                for j in 0..n {
                    a.swap(c * n + j, piv * n + j);
                }
            }
            let pv = a[c * n + c];
            det = self.mul(det, pv);
            let pinv = self.inv(pv);
            for r in c + 1..n {
                let f = self.mul(a[r * n + c], pinv);
                if f != 0 {
                    for j in c..n {
                        let v = self.mul(f, a[c * n + j]);
                        a[r * n + j] ^= v;
                    }
                }
            }
        }
        det
    }

    /// Solve A x = b (n x n, row major). None if singular.
    pub fn solve(&self, m: &[u8], b: &[u8], n: usize) -> Option<Vec<u8>> {
        let mut a = m.to_vec();
        let mut b = b.to_vec();
        for c in 0..n {
            let piv = (c..n).find(|r| a[r * n + c] != 0)?;
            if piv != c {
                for j in 0..n {
                    a.swap(c * n + j, piv * n + j);
                }
                b.swap(c, piv);
            }
            let pinv = self.inv(a[c * n + c]);
            for j in 0..n {
                a[c * n + j] = self.mul(a[c * n + j], pinv);
            }
            b[c] = self.mul(b[c], pinv);
            for r in 0..n {
                if r != c {
                    let f = a[r * n + c];
                    if f != 0 {
                        for j in 0..n {
                            let v = self.mul(f, a[c * n + j]);
                            a[r * n + j] ^= v;
                        }
                        let v = self.mul(f, b[c]);
                        b[r] ^= v;
                    }
                }
            }
        }
        Some(b)
    }

    /// Hankel leading minor H_v = [S_{i+j+1}] (0-based i,j < v) of syndromes S_1.. (syn[0] = S_1).
    /// A non-zero vector x (length `cols`) with M x = 0 for the `rows` x `cols` matrix `m` (row-major), if the
    /// columns are linearly dependent; None if M has full column rank.
    pub fn kernel_vector(&self, m: &[u8], rows: usize, cols: usize) -> Option<Vec<u8>> {
        let mut a = m.to_vec();
        let mut pivot_col_of_row: Vec<usize> = Vec::new();
        let mut is_pivot = vec![false; cols];
        let mut r = 0usize;
        for c in 0..cols {
            if r >= rows {
                break;
            }
            let piv = match (r..rows).find(|i| a[i * cols + c] != 0) {
                Some(p) => p,
                None => continue,
            };
            if piv != r {
                for j in 0..cols {
                    a.swap(r * cols + j, piv * cols + j);
                }
            }
            let pinv = self.inv(a[r * cols + c]);
            for j in 0..cols {
                a[r * cols + j] = self.mul(a[r * cols + j], pinv);
            }
            for i in 0..rows {
                if i != r {
                    let f = a[i * cols + c];
                    if f != 0 {
                        for j in 0..cols {
                            let v = self.mul(f, a[r * cols + j]);
                            a[i * cols + j] ^= v;
                        }
                    }
                }
            }
            pivot_col_of_row.push(c);
            is_pivot[c] = true;
            r += 1;
        }
        let free = (0..cols).find(|c| !is_pivot[*c])?;
        let mut x = vec![0u8; cols];
        x[free] = 1;
        for (row, pc) in pivot_col_of_row.iter().enumerate() {
            // x[pc] + a[row][free] * 1 = 0 (characteristic 2)
            x[*pc] = a[row * cols + free];
        }
        Some(x)
    }

    pub fn hankel_det(&self, syn: &[u8], v: usize) -> u8 {
        let mut m = vec![0u8; v * v];
        for i in 0..v {
            for j in 0..v {
                m[i * v + j] = syn[i + j];
            }
        }
        self.det(&m, v)
    }

    /// Reference model: bounded-distance decoding of one block (`word_hi_first`, k EC codewords at its end) by
    /// Berlekamp-Massey + root search over the block's positions + a linear solve for the values. Returns the
    /// corrected block if a word with all k syndromes zero lies within floor(k/2) substitutions of the input.
    pub fn bd_decode_block(&self, word_hi_first: &[u8], k: usize) -> Option<Vec<u8>> {
        let n = word_hi_first.len();
        let t = k / 2;
        let syn = self.syndromes(word_hi_first, k);
        if syn.iter().all(|s| *s == 0) {
            return Some(word_hi_first.to_vec());
        }
        // Berlekamp-Massey: shortest LFSR C(x) = 1 + c1 x + ... + cL x^L with sum_{i=0..L} c_i S_{j-i} = 0
        let mut c = vec![0u8; k + 2];
        let mut b = vec![0u8; k + 2];
        c[0] = 1;
        b[0] = 1;
        let mut l = 0usize;
        let mut m = 1usize;
        let mut bb = 1u8;
        for i in 0..k {
            let mut d = syn[i];
            for j in 1..=l {
                d ^= self.mul(c[j], syn[i - j]);
            }
            if d == 0 {
                m += 1;
            } else if 2 * l <= i {
                let tmp = c.clone();
                let f = self.div(d, bb);
                for j in 0..k + 2 - m {
                    let v = self.mul(f, b[j]);
                    c[j + m] ^= v;
                }
                l = i + 1 - l;
                b = tmp;
                bb = d;
                m = 1;
            } else {
                let f = self.div(d, bb);
                for j in 0..k + 2 - m {
                    let v = self.mul(f, b[j]);
                    c[j + m] ^= v;
                }
                m += 1;
            }
        }
        if l == 0 || l > t || c[l] == 0 {
            return None;
        }
        // roots: position idx (degree n-1-idx) is in error iff C(alpha^-(n-1-idx)) == 0
        let mut locs: Vec<usize> = Vec::new();
        for idx in 0..n {
            let deg = n - 1 - idx;
            let xinv = self.alpha_pow((255 - deg % 255) % 255);
            let mut acc = 0u8;
            for j in (0..=l).rev() {
                acc = self.mul(acc, xinv) ^ c[j];
            }
            if acc == 0 {
                locs.push(idx);
            }
        }
        if locs.len() != l {
            return None;
        }
        // values: sum_i e_i X_i^j = S_j, j = 1..l
        let mut mat = vec![0u8; l * l];
        for j in 0..l {
            for (i, idx) in locs.iter().enumerate() {
                let deg = n - 1 - *idx;
                mat[j * l + i] = self.alpha_pow((deg * (j + 1)) % 255);
            }
        }
        let vals = self.solve(&mat, &syn[..l], l)?;
        let mut out = word_hi_first.to_vec();
        for (i, idx) in locs.iter().enumerate() {
            if vals[i] == 0 {
                return None;
            }
            out[*idx] ^= vals[i];
        }
        if self.syndromes(&out, k).iter().any(|s| *s != 0) {
            return None;
        }
        Some(out)
    }
}
